"""C13 — Datasets are read by NM-TRAN's rules and survive a write/read cycle.

K   : Lean model (PharmpyModel/C13/{Split,Number,Reader}.lean) vs the real
      pharmpy.model.external.nonmem.dataset on generated data-file texts x $INPUT
      column lists x IGNORE/ACCEPT lists: whole read (error class, every cell),
      plus piecewise: the separator regex on every line, convert_fortran_number on
      every item.
Mon : an independent reference reader written from docs/NONMEM.rst (tokenizer
      state machine, documented number grammar, per-row pad/strip, filters in
      order) compared with the real reader; per-item number monitor; write/read
      round trip of numeric frames (DataFrame.to_csv as write_csv does it).
      A disagreement is attributed to a known defect class only if emulating
      exactly that defect in the reference reproduces the real outcome.
T6  : constants of dataset.py (regex strings, 24, special column names, operator
      table) are extracted with `ast` into PharmpyModel/Generated/C13Consts.lean;
      Properties.lean proves they are the ones the model was written for.
"""
from __future__ import annotations

import ast
import itertools
import math
import os
import random
import re
import warnings
from fractions import Fraction
from io import StringIO
from pathlib import Path

ID = "C13"
DRIVER = "drv_c13"
LEAN_TARGETS = ["PharmpyProofs.C13.Properties", "PharmpyProofs.C13.WriteProperties", "drv_c13"]
PROPERTIES = ["PharmpyProofs/C13/Properties.lean", "PharmpyProofs/C13/WriteProperties.lean"]
LEAN_SOURCES = ["PharmpyModel/C13/*.lean", "PharmpyModel/Generated/C13Consts.lean", "PharmpyProofs/C13/*.lean",
                "Drivers/C13.lean"]
TIME_LIMIT = {"quick": 900, "thorough": 3000}
CASE_CPU_LIMIT = 30
RULE = ("kind=read: a data-file text of 1-7 rows built from the documented lexical forms (plain/decimal/E/D/short-form "
        "numbers, lone sign, '.', empty items, the missing-data token, 22-27 character items, malformed items, free text) "
        "joined by every separator combination (',', ' ', TAB, blanks around them, doubled), optional leading/trailing "
        "blanks/commas/TABs, comment lines for the chosen IGNORE character, rare blank lines / missing final newline; "
        "x a $INPUT list of 1-6 names (ID, TIME, DATE, DROP flags, fewer or more names than items, rare duplicate) "
        "x NULL value x 0-3 IGNORE or ACCEPT conditions (string and numeric operators, every spelling). "
        "kind=roundtrip: a numeric frame (ints, short and 17-digit floats, tiny/huge exponents, NaN) written with "
        "DataFrame.to_csv(na_rep='-99', index=False) and read back with IGNORE=@. "
        "kind=history: a $PRED model + data file and 2-12 write_csv / write_model / dataset-change operations; in about half "
        "of them $INPUT drops columns in every form (anonymous DROP / SKIP -> _DROPn, X=DROP, DROP=X) before ID (first "
        "column of the file), between and after the data columns, DV optionally under a synonym; plus 5 first-column labels "
        "(letter, '_', '#', '@', digit, other starts) for the IGNORE character chosen from the header. "
        "non-trivial = the real reader returned a table with >= 2 rows and >= 2 columns, or raised a documented error "
        "on a text with >= 2 rows; distinct = distinct case JSON")
TRUSTED = [
    "Lean 4.33 kernel; axioms propext, Quot.sound, Classical.choice only (audited per theorem each run)",
    "hand-written model PharmpyModel/C13/*.lean tied to dataset.py by the correspondence run of this invocation and by the "
    "T6 constants translator (regex strings, limits, name tables regenerated from the source each run)",
    "pandas 3.0.5 python engine: line iteration, line.strip(), re.split per line, width from the first non-empty row, "
    "None padding, removal of empty rows; DataFrame.query on object / float columns (modelled, compared by K on every case)",
    "python float()/np.float64(str) is the correctly rounded value of the decimal the model prints",
    "lark parse of one IGNORE/ACCEPT condition into (column, operator, value): the harness renders conditions from that "
    "triple and hands the triple to the model",
    "harness/corr/c13.py: generator, reference reader written from docs/NONMEM.rst, defect emulation flags",
]
ASSUMPTIONS = [
    "item alphabet: printable ASCII without '_' and without n/N (python float() then accepts exactly the modelled grammar)",
    "numbers compared by IGNORE/ACCEPT and ID values have < 16 significant digits (exact decimal comparison in the "
    "model coincides with float64 comparison)",
    "raw=False, dtype=None, ID never DROPped, no duplicate column names involving a DROPped column, no '\\r'",
    "text passed as StringIO (file reading with latin-1 / universal newlines is outside)",
    "column labels are ASCII (str.isalpha() of the first character is modelled as [A-Za-z]); with anonymous DROP columns "
    "only value / row changes are generated (adding or removing columns renumbers _DROPn: outside)",
]

MISSING = "-99"
SEP_REGEX = r' *, *| *[\t] *| +'


def budget(tier):
    return int(os.environ.get("VERIF_BUDGET", 0)) or {"quick": 4000, "thorough": 60000}[tier]


# ---------------------------------------------------------------- T6: constants of dataset.py

def _consts_from_source():
    from harness.common.paths import REPO_SRC
    src = (REPO_SRC / "pharmpy/model/external/nonmem/dataset.py").read_text()
    tree = ast.parse(src)
    out = {}
    strs = []
    for node in ast.walk(tree):
        if isinstance(node, ast.Constant) and isinstance(node.value, str):
            strs.append(node.value)
    funcs = {n.name: n for n in ast.walk(tree) if isinstance(n, (ast.FunctionDef, ast.ClassDef))}
    for need in ("NMTRANDataIO", "convert_fortran_number", "_convert_data_item", "_filter_ignore_accept",
                 "read_nonmem_dataset", "_make_ids_unique"):
        if need not in funcs:
            raise ValueError(f"dataset.py: {need} not found")
    # sep= keyword of pd.read_table
    seps = [kw.value.value for n in ast.walk(funcs["read_nonmem_dataset"]) if isinstance(n, ast.Call)
            for kw in n.keywords if kw.arg == "sep" and isinstance(kw.value, ast.Constant)]
    if len(seps) != 1:
        raise ValueError("read_nonmem_dataset: expected exactly one literal sep=")
    out["sepRegex"] = seps[0]
    kws = {kw.arg: kw.value for n in ast.walk(funcs["read_nonmem_dataset"]) if isinstance(n, ast.Call)
           and getattr(n.func, "attr", "") == "read_table" for kw in n.keywords}
    want = {"na_filter": False, "header": None, "engine": "python", "quoting": 3, "index_col": False}
    for k, v in want.items():
        if k not in kws or not isinstance(kws[k], ast.Constant) or kws[k].value is not v and kws[k].value != v:
            raise ValueError(f"read_table keyword {k} changed")
    # regex literals of NMTRANDataIO
    io_strs = [n.value for n in ast.walk(funcs["NMTRANDataIO"]) if isinstance(n, ast.Constant) and isinstance(n.value, str)]
    for key, lit in (("commentAt", r'^[ \t]*[A-Za-z#@].*(\n|$)'), ("spaceTab", r' \t'), ("blankLine", r'^[ \t]*\n')):
        if lit not in io_strs:
            raise ValueError(f"NMTRANDataIO: regex literal {lit!r} not found")
        out[key] = lit
    # comment regexp for IGNORE=c: '^[' + re.escape(ignore_character) + r'].*(\n|$)'
    binops = [n for n in ast.walk(funcs["NMTRANDataIO"]) if isinstance(n, ast.BinOp) and isinstance(n.op, ast.Add)
              and isinstance(n.left, ast.BinOp) and isinstance(n.left.op, ast.Add)]
    shape = None
    for b in binops:
        l, m, r = b.left.left, b.left.right, b.right
        if isinstance(l, ast.Constant) and isinstance(r, ast.Constant):
            esc = isinstance(m, ast.Call) and getattr(m.func, "attr", "") == "escape" and len(m.args) == 1 \
                and isinstance(m.args[0], ast.Name) and m.args[0].id == "ignore_character"
            plain = isinstance(m, ast.Name) and m.id == "ignore_character"
            if esc or plain:
                shape = (l.value, r.value, bool(esc))
    if shape is None:
        raise ValueError("NMTRANDataIO: comment regexp for IGNORE=c is not prefix + [re.escape](ignore_character) + suffix")
    out["commentPrefix"], out["commentSuffix"], out["commentEscaped"] = shape
    cf_strs = [n.value for n in ast.walk(funcs["convert_fortran_number"]) if isinstance(n, ast.Constant) and isinstance(n.value, str)]
    short = [s for s in cf_strs if s.startswith("([")]
    if len(short) != 1:
        raise ValueError("convert_fortran_number: short-form regex not found")
    out["shortRegex"] = short[0]
    fns = [n.func.attr for n in ast.walk(funcs["convert_fortran_number"]) if isinstance(n, ast.Call)
           and isinstance(n.func, ast.Attribute) and n.args and isinstance(n.args[0], ast.Constant) and n.args[0].value == short[0]]
    if len(fns) != 1 or fns[0] not in ("match", "fullmatch", "search"):
        raise ValueError("convert_fortran_number: how the short-form regex is applied is not recognised")
    out["shortMatchFn"] = fns[0]
    lims = [n.comparators[0].value for n in ast.walk(funcs["_convert_data_item"]) if isinstance(n, ast.Compare)
            and isinstance(n.ops[0], ast.Gt) and isinstance(n.comparators[0], ast.Constant) and isinstance(n.comparators[0].value, int)]
    if len(lims) != 1:
        raise ValueError("_convert_data_item: length limit not found")
    out["itemLimit"] = lims[0]
    lists = [[e.value for e in n.elts] for n in ast.walk(funcs["read_nonmem_dataset"]) if isinstance(n, ast.List)
             and n.elts and all(isinstance(e, ast.Constant) and isinstance(e.value, str) for e in n.elts)]
    special = [l for l in lists if "TIME" in l]
    dates = [l for l in lists if "DATE" in l and "TIME" not in l]
    if len(special) != 1 or len(dates) != 1:
        raise ValueError("read_nonmem_dataset: special column lists not found")
    out["specialCols"], out["dateCols"] = special[0], dates[0]
    gram = [s for s in strs if "OP_STR_EQ" in s and "start:" in s]
    if len(gram) != 1:
        raise ValueError("_filter_ignore_accept: grammar not found")
    ops = {}
    for m in re.finditer(r'^\s*(OP_\w+)\s*:\s*(.+)$', gram[0], re.M):
        ops[m.group(1)] = re.findall(r'"([^"]+)"', m.group(2))
    out["ops"] = ops
    # operator_type table: tp == 'OP_X' -> operator, type
    table = []
    for n in ast.walk(funcs["_filter_ignore_accept"]):
        if isinstance(n, ast.If) and isinstance(n.test, ast.Compare) and isinstance(n.test.left, ast.Name) \
                and n.test.left.id == "tp" and isinstance(n.test.comparators[0], ast.Constant):
            vals = {}
            for st in n.body:
                if isinstance(st, ast.Assign) and isinstance(st.targets[0], ast.Name):
                    v = st.value
                    vals[st.targets[0].id] = v.value if isinstance(v, ast.Constant) else getattr(v, "id", None)
            table.append((n.test.comparators[0].value, vals.get("operator"), vals.get("operator_type")))
    if len(table) != 8:
        raise ValueError("_filter_ignore_accept: operator table shape changed")
    out["opTable"] = sorted(table)
    # ---- parsing.py: reserved names of _synonym, shape of replace_synonym_in_filters
    psrc = (REPO_SRC / "pharmpy/model/external/nonmem/parsing.py").read_text()
    ptree = ast.parse(psrc)
    pfuncs = {n.name: n for n in ast.walk(ptree) if isinstance(n, ast.FunctionDef)}
    for need in ("_synonym", "parse_column_info", "replace_synonym_in_filters", "parse_dataset"):
        if need not in pfuncs:
            raise ValueError(f"parsing.py: {need} not found")
    res = [[e.value for e in n.value.elts] for n in ast.walk(pfuncs["_synonym"]) if isinstance(n, ast.Assign)
           and isinstance(n.targets[0], ast.Name) and n.targets[0].id == "_reserved_column_names" and isinstance(n.value, ast.List)
           and all(isinstance(e, ast.Constant) for e in n.value.elts)]
    if len(res) != 1:
        raise ValueError("_synonym: _reserved_column_names list not found")
    out["reservedNames"] = res[0]
    # replace_synonym_in_filters must be: result = []; for f in filters: <...; exactly one result.append(..) as the
    # last statement of the loop body, none elsewhere>; return result   (one output per input, in input order)
    fn = pfuncs["replace_synonym_in_filters"]
    body = [st for st in fn.body if not (isinstance(st, ast.Expr) and isinstance(st.value, ast.Constant))]
    ok = (len(body) == 3 and isinstance(body[0], ast.Assign) and isinstance(body[0].value, ast.List) and not body[0].value.elts
          and isinstance(body[0].targets[0], ast.Name)
          and isinstance(body[1], ast.For) and isinstance(body[1].iter, ast.Name) and body[1].iter.id == fn.args.args[0].arg
          and not body[1].orelse and isinstance(body[2], ast.Return) and isinstance(body[2].value, ast.Name)
          and body[2].value.id == body[0].targets[0].id)
    if ok:
        acc = body[0].targets[0].id

        def is_append(st):
            return (isinstance(st, ast.Expr) and isinstance(st.value, ast.Call) and isinstance(st.value.func, ast.Attribute)
                    and st.value.func.attr in ("append", "insert", "extend") and isinstance(st.value.func.value, ast.Name)
                    and st.value.func.value.id == acc)
        loop = body[1].body
        appends = [n for n in ast.walk(body[1]) if isinstance(n, ast.Expr) and is_append(n)]
        ok = len(appends) == 1 and loop and is_append(loop[-1]) and loop[-1].value.func.attr == "append" \
            and not any(isinstance(n, (ast.Break, ast.Continue)) for n in ast.walk(body[1]))
    if not ok:
        raise ValueError("replace_synonym_in_filters: not the recognised 'one append per filter, in order' loop")
    out["replaceSynShape"] = "for f in filters: ...; result.append(s)"
    return out


def _lean_str(s):
    return '"' + s.replace("\\", "\\\\").replace('"', '\\"').replace("\n", "\\n").replace("\t", "\\t") + '"'


def translate_consts():
    from harness.common.paths import LEAN
    c = _consts_from_source()
    lines = ["/- GENERATED by harness/corr/c13.py (T6) from /repo/src/pharmpy/model/external/nonmem/{dataset,parsing}.py. Do not edit. -/",
             "namespace Pharmpy.C13.Generated", ""]
    for k in ("sepRegex", "commentAt", "commentPrefix", "commentSuffix", "spaceTab", "blankLine", "shortRegex"):
        lines.append(f"def {k} : String := {_lean_str(c[k])}")
    lines.append(f"def shortMatchFn : String := {_lean_str(c['shortMatchFn'])}")
    lines.append(f"def commentEscaped : Bool := {'true' if c['commentEscaped'] else 'false'}")
    lines.append(f"def itemLimit : Nat := {c['itemLimit']}")
    lines.append("/-- `_reserved_column_names` of parsing.py `_synonym` -/")
    lines.append("def reservedNames : List String := [" + ", ".join(_lean_str(x) for x in c["reservedNames"]) + "]")
    lines.append(f"def replaceSynShape : String := {_lean_str(c['replaceSynShape'])}")
    lines.append("def specialCols : List String := [" + ", ".join(_lean_str(s) for s in c["specialCols"]) + "]")
    lines.append("def dateCols : List String := [" + ", ".join(_lean_str(s) for s in c["dateCols"]) + "]")
    lines.append("/-- (terminal, spellings) of the IGNORE/ACCEPT grammar -/")
    lines.append("def opSpellings : List (String × List String) := [" + ", ".join(
        f"({_lean_str(k)}, [" + ", ".join(_lean_str(x) for x in v) + "])" for k, v in sorted(c["ops"].items())) + "]")
    lines.append("/-- (terminal, pandas operator, comparison type) -/")
    lines.append("def opTable : List (String × String × String) := [" + ", ".join(
        f"({_lean_str(a)}, {_lean_str(str(b))}, {_lean_str(str(t))})" for a, b, t in c["opTable"]) + "]")
    lines += ["", "end Pharmpy.C13.Generated", ""]
    text = "\n".join(lines)
    p = LEAN / "PharmpyModel" / "Generated" / "C13Consts.lean"
    p.parent.mkdir(parents=True, exist_ok=True)
    if p.exists() and p.read_text() == text:
        return False
    p.write_text(text)
    return True


def translators():
    return [("T6-dataset-constants", translate_consts)]


# ---------------------------------------------------------------- generation

NAME_POOL = ["ID", "TIME", "DV", "AMT", "WGT", "DATE", "APGR", "X1"]
OPS = {  # op -> spellings
    "seq": [".EQ.", "==", "=", " "], "sne": [".NE.", "/="],
    "eq": [".EQN."], "ne": [".NEN."], "lt": [".LT.", "<"], "gt": [".GT.", ">"], "le": [".LE.", "<="], "ge": [".GE.", ">="],
}


def gen_digits(rng, n):
    return "".join(rng.choice("0123456789") for _ in range(n))


def gen_item(rng: random.Random) -> str:
    r = rng.random()
    if r < 0.28:
        return str(rng.randint(0, 12))
    if r < 0.36:
        return str(rng.randint(0, 99999))
    if r < 0.46:
        return rng.choice(["", "-", "+"]) + rng.choice([f"{rng.randint(0, 99)}.{gen_digits(rng, rng.randint(0, 3))}",
                                                          f".{gen_digits(rng, rng.randint(1, 3))}"])
    if r < 0.54:
        return rng.choice(["", "-", "+"]) + f"{rng.randint(0, 99)}" + rng.choice(["", f".{rng.randint(0, 9)}"]) + \
            rng.choice("eE") + rng.choice(["", "+", "-"]) + str(rng.randint(0, 30))
    if r < 0.60:
        return f"{rng.randint(0, 99)}" + rng.choice(["", f".{rng.randint(0, 9)}"]) + rng.choice("dD") + \
            rng.choice(["", "+", "-"]) + str(rng.randint(0, 30))
    if r < 0.607:
        return rng.choice("+-") + f"{rng.randint(0, 99)}" + rng.choice(["", f".{rng.randint(0, 9)}"]) + rng.choice("dD") + \
            rng.choice(["", "+", "-"]) + str(rng.randint(0, 9))
    if r < 0.70:
        return rng.choice(["", "-", "+"]) + f"{rng.randint(0, 99)}" + rng.choice(["", f".{rng.randint(0, 9)}", "."]) + \
            rng.choice("+-") + str(rng.randint(0, 30))
    if r < 0.73:
        return rng.choice("+-")
    if r < 0.79:
        return "."
    if r < 0.83:
        return ""
    if r < 0.86:
        return MISSING
    if r < 0.885:
        n = rng.randint(22, 27)
        k = rng.random()
        if k < 0.5:
            return gen_digits(rng, n)
        if k < 0.8:
            return "0." + gen_digits(rng, n - 2)
        return "-" + gen_digits(rng, n - 6) + "e-" + gen_digits(rng, 3)
    if r < 0.895:
        return rng.choice(["2-1-3", "2-1D5", "1+2+3", "1.5-2d1", "3-4-", "1E5-2", "+-", "--1", "1+", "1e", "e5", "1..2",
                           "1.2.3", "1e5d", "1d", "d1", "1dd1", "1D1D1", "-d1", "1e+5+3", "-", "5-", "1-2e3", "1e1e1"])
    if r < 0.92:
        return rng.choice(["A", "x", "abc", "12:30", "1/2", "#", "@", "a1", "1a", "Q", "*", "0x10", "1,", "$5", '"1"'])
    if r < 0.96:
        return str(rng.randint(0, 12))
    return rng.choice(["1e400", "1e-400", "0.0", "-0", "00012", "1e0", "1E+00", "007.50", "1.0D0", "10-1", "100000-5"])


def gen_id_item(rng, cur):
    r = rng.random()
    v = cur
    if r < 0.70:
        return rng.choice([str(v), str(v), f"{v}.0", f"{v}e0", f"+{v}", f"0{v}", f"{v}D0", f"{v*10}-1"])
    if r < 0.76:
        return f"{v}.5"
    if r < 0.80:
        return str(3000000000 + v)
    if r < 0.82:
        return MISSING
    if r < 0.85:
        return rng.choice(["", ".", "x"])
    return str(v)


SEPS = [(",", 38), (" ", 14), ("\t", 10), (", ", 7), (" ,", 5), (" , ", 5), ("  ", 5), ("\t ", 4), (",,", 3), ("\t\t", 2),
        (",\t", 1), (", ,", 2), ("   ,  ", 1), (" \t", 0.25), ("\t,", 1), (",  ", 1)]
LEAD = [("", 82), (" ", 7), (",", 5), ("  ", 3), ("\t", 0.7), (" ,", 2), (", ", 1)]
TRAIL = [("", 74), (" ", 8), (",", 7), (", ", 3), ("\t", 0.7), (",,", 2), ("  ", 2), (" ,", 2), (" \t", 0.2), ("\t ", 0.5)]


def wchoice(rng, table):
    tot = sum(w for _, w in table)
    x = rng.uniform(0, tot)
    for v, w in table:
        x -= w
        if x <= 0:
            return v
    return table[-1][0]


def gen_filters(rng, names, sample_items):
    out = []
    for _ in range(rng.randint(1, 3)):
        col = rng.choice(names)
        op = rng.choice(["seq", "seq", "sne", "eq", "ne", "lt", "gt", "le", "ge"])
        if op in ("seq", "sne"):
            cands = [s for s in sample_items if re.fullmatch(r'[^"\',;()=<>/.\s][^"\',;()=\s]*', s or "")]
            val = rng.choice(cands) if cands and rng.random() < 0.8 else rng.choice(["1", "2", "0", "abc", "x", "-99", "3.0"])
            quoted = rng.random() < 0.2
        else:
            val = rng.choice([str(rng.randint(0, 12)), f"{rng.randint(0, 12)}.5", f"-{rng.randint(0, 3)}", "0", "1", "2", "3"])
            quoted = False
        sp = rng.choice(OPS[op])
        if sp == " ":
            text = f"{col} {val}" if not quoted else f'{col} "{val}"'
        else:
            pad1 = " " if rng.random() < 0.15 else ""
            pad2 = " " if rng.random() < 0.15 else ""
            v = f'"{val}"' if quoted and rng.random() < 0.5 else (f"'{val}'" if quoted else val)
            text = f"{col}{pad1}{sp}{pad2}{v}"
        out.append([col, op, val, text])
    return out


COMMENT_BODIES = [" skipped 1,2,3", "1,2", "", " x", " dose changed \there", "\t note", " \t", "ID \tTIME\tDV", " + - .", ' "quoted, text"',
                  " '", " 123456789012345678901234567890", ",,,", " , \t ,", "\t\t", "   ", " caf\u00e9 \u00b5g/L", " 2-1-3 1e -5D1", " a  \t b",
                  "=(x)", " ; semicolon"]


def gen_comment_line(rng, ic):
    """a line the chosen IGNORE character removes; its text is free (blanks before TABs, separators only, over-long
    items, quotes, non-ASCII, nothing at all)"""
    body = rng.choice(COMMENT_BODIES)
    if ic == "@":
        lead = rng.choice(["", "", " ", "\t", "  ", "\t "])
        return lead + rng.choice(["#", "@", "A", "Z", "c", "ID", "x"]) + body
    return ic + body


def gen_read_case(rng: random.Random):
    ic = wchoice(rng, [("#", 45), ("@", 30), ("C", 8), ("I", 5), ("*", 5), ("!", 4), ("^", 1), ("\\", 1), ("]", 1)])
    n = rng.randint(1, 6)
    names = []
    pool = NAME_POOL[:]
    if rng.random() < 0.7:
        names.append("ID")
        pool.remove("ID")
    rng.shuffle(pool)
    while len(names) < n and pool:
        nm = pool.pop()
        if nm == "ID" and names:
            names.insert(rng.randrange(len(names) + 1), nm)
        else:
            names.append(nm)
    if rng.random() < 0.4:
        # keep TIME / DATE rarer
        names = [x if x not in ("TIME", "DATE") or rng.random() < 0.5 else f"C{j}" for j, x in enumerate(names)]
    drop = [nm != "ID" and rng.random() < 0.15 for nm in names]
    if len(names) >= 2 and rng.random() < 0.02:
        names[-1] = names[0]
        drop[-1] = drop[0] = False
    n = len(names)
    nrows = rng.randint(1, 7)
    lines = []
    items_seen = []
    cur_id = rng.randint(1, 3)
    wmode = rng.random()
    for i in range(nrows):
        if wmode < 0.55:
            k = n
        elif i == 0:
            k = max(1, n + rng.choice([0, 0, 0, 0, 0, 0, 0, -1, -2, 1]))
        elif wmode < 0.8:
            k = max(1, n + rng.choice([-2, -1, -1, 0, 0, 0, 1, 1, 2]))
        else:
            k = rng.randint(1, n + 2)
        if rng.random() < 0.35:
            cur_id += rng.choice([1, 1, 1, -1, 2])
            cur_id = max(cur_id, 1)
        row = []
        for j in range(k):
            nm = names[j] if j < n else None
            if nm == "ID":
                it = gen_id_item(rng, cur_id)
            elif nm == "TIME" and rng.random() < 0.3:
                it = rng.choice(["12:30", "0", "1.5", "10"])
            elif nm is not None and drop[j] and rng.random() < 0.5:
                it = rng.choice(["abc", "x", "text", "1", "#", "12345678901234567890123456789"])
            else:
                it = gen_item(rng)
            row.append(it)
        items_seen += row
        s = wchoice(rng, LEAD)
        for j, it in enumerate(row):
            if j:
                s += wchoice(rng, SEPS) if rng.random() < 0.5 else rng.choice([",", ",", " ", "\t"])
            s += it
        s += wchoice(rng, TRAIL)
        lines.append(s)
    # comment / header / blank lines
    extra = []
    r = rng.random()
    if r < 0.35:
        hdr = ",".join(nm for nm in names)
        if ic == "@":
            extra.append((0, rng.choice(["", " ", "\t"]) + hdr))
        else:
            extra.append((0, ic + hdr))
    if rng.random() < 0.3:
        for _ in range(rng.choice([1, 1, 2, 3])):
            extra.append((rng.randint(0, len(lines)), gen_comment_line(rng, ic)))
    if rng.random() < 0.06:
        extra.append((rng.randint(0, len(lines)), "#" + "1,2"))
    if rng.random() < 0.07:
        extra.append((rng.randint(0, len(lines)), rng.choice(["", "", " ", "\t", "  "])))
        if rng.random() < 0.3:
            extra.append((extra[-1][0], ""))
    for pos, ln in sorted(extra, key=lambda t: -t[0]):
        lines.insert(pos, ln)
    text = "\n".join(lines)
    if rng.random() < 0.85:
        text += "\n"
    elif rng.random() < 0.25:
        text += "\n" + gen_comment_line(rng, ic)
    if rng.random() < 0.03:
        text += "\n"
    mode = wchoice(rng, [(0, 58), (1, 32), (2, 10)])
    filters = gen_filters(rng, names, items_seen) if mode else []
    null = wchoice(rng, [("0", 70), ("5", 10), ("-", 8), ("+", 4), ("9", 8)])
    return {"kind": "read", "text": text, "ic": ic, "names": names, "drop": drop, "null": null, "mode": mode,
            "filters": filters, "seed": rng.randrange(1 << 30)}


def gen_float_repr(rng):
    r = rng.random()
    if r < 0.3:
        return repr(float(rng.randint(-50, 200)))
    if r < 0.5:
        return repr(round(rng.uniform(-100, 100), rng.randint(1, 4)))
    if r < 0.7:
        return repr(rng.uniform(-1, 1) * 10.0 ** rng.randint(-300, 300))
    if r < 0.8:
        return repr(rng.random())
    if r < 0.86:
        return "nan"
    if r < 0.9:
        return rng.choice(["-99.0", "0.0", "-0.0", "1e-05", "5e-324", "1.7976931348623157e+308", "-2.2250738585072014e-308"])
    return repr(float(rng.randint(0, 10 ** rng.randint(1, 15))))


def gen_roundtrip_case(rng):
    n = rng.randint(1, 5)
    cols = ["ID"] + rng.sample(["TIME", "DV", "AMT", "WGT", "APGR", "X1"], n - 1) if rng.random() < 0.8 else \
        rng.sample(["DV", "AMT", "WGT", "APGR", "X1"], n)
    nrows = rng.randint(1, 6)
    rows = []
    cid = 1
    for i in range(nrows):
        if rng.random() < 0.4:
            cid += 1
        rows.append([repr(float(cid)) if c == "ID" else
                     (repr(float(i)) if c == "TIME" else gen_float_repr(rng)) for c in cols])
    return {"kind": "roundtrip", "cols": cols, "rows": rows, "seed": rng.randrange(1 << 30)}


# ---------------------------------------------------------------- model-level cases ($INPUT / $DATA of a control stream)

SYN_RESERVED = ["DV", "AMT", "MDV", "EVID", "RATE", "TIME", "CMT"]
SYN_NAMES = ["CONC", "DOSE", "OBS", "FLAG", "RT", "TAD", "LNDV"]
PLAIN_NAMES = ["WGT", "APGR", "SEX", "X1", "AGE", "DV", "AMT", "MDV", "TIME"]
MARKERS = ["EXCL", "BQL", "x", "NA", "miss"]
OP_SPELL_M = {"seq": [".EQ.", "==", "="], "sne": [".NE.", "/="], "eq": [".EQN."], "ne": [".NEN."], "lt": [".LT.", "<"],
              "gt": [".GT.", ">"], "le": [".LE.", "<="], "ge": [".GE.", ">="]}


def gen_plain_number(rng):
    r = rng.random()
    if r < 0.5:
        return str(rng.randint(0, 150))
    if r < 0.75:
        return f"{rng.randint(0, 150)}.{rng.randint(0, 99)}"
    if r < 0.85:
        return rng.choice([".", "", "0", "-1", "+2.5"])
    return rng.choice(["1e2", "2.5E-1", "1D1", "-5D1", "2-1", "3+1", "00.50", MISSING])


def gen_model_case(rng: random.Random):
    """A control stream's $INPUT (synonyms either way round, DROP/SKIP in every form) and $DATA (IGNORE character, NULL,
    one or more IGNORE=(..) / ACCEPT=(..) lists mixing text and numeric conditions, written with reserved names or
    synonyms) plus a data file in which some rows carry text markers that only an earlier text condition removes."""
    ncol = rng.randint(2, 6)
    bases = ["ID"] if rng.random() < 0.85 else []
    pool = PLAIN_NAMES[:]
    rng.shuffle(pool)
    while len(bases) < ncol and pool:
        bases.append(pool.pop())
    syns = SYN_NAMES[:]
    rng.shuffle(syns)
    opts, cols = [], []          # cols: [column name, drop, [names a condition may use]]
    for b in bases:
        r = rng.random()
        if b in SYN_RESERVED and b != "ID" and r < 0.5 and syns:
            sy = syns.pop()
            opts.append([sy, b] if rng.random() < 0.5 else [b, sy])
            cols.append([sy, False, [b, b, sy]])
        elif b != "ID" and r < 0.62:
            form = rng.randrange(5)
            if form == 4:
                opts.append([rng.choice(["DROP", "SKIP"]), None])
                cols.append([None, True, []])
            else:
                w = rng.choice(["DROP", "SKIP"])
                opts.append([b, w] if form < 2 else [w, b])
                cols.append([b, True, [b]])
        else:
            opts.append([b, None])
            cols.append([b, False, [b]])
    n = len(cols)
    usable = [j for j in range(n) if cols[j][2]]
    nrows = rng.randint(2, 8)
    marker = rng.choice(MARKERS)
    scenario = rng.random() < 0.55 and len([j for j in usable if bases[j] != "ID"]) >= 2
    mcols = rng.sample([j for j in usable if bases[j] != "ID"], 2) if scenario else []
    marked = set(i for i in range(nrows) if rng.random() < 0.3) if scenario else set()
    rows = []
    cid = rng.randint(1, 3)
    for i in range(nrows):
        if rng.random() < 0.35:
            cid += rng.choice([1, 1, 1, 2, -1])
            cid = max(cid, 1)
        k = n if rng.random() < 0.85 else max(1, n + rng.choice([-1, -1, 1]))
        row = []
        for j in range(k):
            if j < n and bases[j] == "ID":
                row.append(rng.choice([str(cid), str(cid), f"{cid}.0", f"{cid}e0"]))
            elif j in mcols and i in marked:
                row.append(marker)
            elif j < n and cols[j][1] and rng.random() < 0.4:
                row.append(rng.choice(["abc", "text", marker, "1"]))
            elif rng.random() < 0.04:
                row.append(rng.choice(MARKERS + ["2-1-3", "1e"]))
            else:
                row.append(gen_plain_number(rng))
        sep = rng.choice([",", ",", ",", ",", " ", "\t", ", ", " ,"])
        rows.append(sep.join(row))
    ic = wchoice(rng, [("@", 50), (None, 15), ("#", 15), ("C", 10), ("*", 10)])
    hdr = ",".join(c[0] or "DROP" for c in cols)
    lines = list(rows)
    if ic == "@":
        lines.insert(0, hdr)
    elif rng.random() < 0.6:
        lines.insert(0, (ic or "#") + hdr)
    if rng.random() < 0.2:
        lines.insert(rng.randint(0, len(lines)), gen_comment_line(rng, ic or "#"))
    text = "\n".join(lines) + ("\n" if rng.random() < 0.9 else "")
    # conditions
    filters = []
    items = [it for r_ in rows for it in re.split(SEP_REGEX, r_.strip())]

    def cond(j, op, val):
        name = rng.choice(cols[j][2])
        sp = rng.choice(OP_SPELL_M[op])
        q = rng.random() < 0.15 and op in ("seq", "sne")
        v = (rng.choice(['"%s"', "'%s'"]) % val) if q else val
        return [name, op, val, f"{name}{sp}{v}"]

    if scenario:
        filters.append(cond(mcols[0], "seq", marker))
        for j in rng.sample(usable, min(len(usable), rng.randint(1, 2))):
            if bases[j] != "ID" or rng.random() < 0.3:
                filters.append(cond(j, rng.choice(["gt", "lt", "ge", "le", "eq", "ne"]), str(rng.randint(0, 120))))
        if rng.random() < 0.5:
            filters.append(cond(mcols[1], rng.choice(["gt", "lt", "ge", "eq"]), str(rng.randint(0, 120))))
        if rng.random() < 0.35:
            rng.shuffle(filters)
    elif usable and rng.random() < 0.8:
        for _ in range(rng.randint(1, 4)):
            j = rng.choice(usable)
            op = rng.choice(["seq", "seq", "sne", "eq", "ne", "lt", "gt", "le", "ge"])
            if op in ("seq", "sne"):
                cands = [x for x in items if re.fullmatch(r'[^"\',;()=<>/.\s][^"\',;()=\s]*', x or "")]
                val = rng.choice(cands) if cands and rng.random() < 0.8 else rng.choice(MARKERS)
            else:
                val = rng.choice([str(rng.randint(0, 120)), f"{rng.randint(0, 50)}.5", "0", "1"])
            filters.append(cond(j, op, val))
    mode = 0 if not filters else (1 if rng.random() < 0.85 else 2)
    groups = []
    left = len(filters)
    while left:
        g = rng.randint(1, left)
        groups.append(g)
        left -= g
    null = wchoice(rng, [(None, 75), ("5", 8), ("9", 5), ("+", 6), ("-", 6)])
    return {"kind": "model", "input": opts, "text": text, "ic": ic, "null": null, "mode": mode, "filters": filters,
            "groups": groups, "seed": rng.randrange(1 << 30)}


def _mc(inp, text, filters, mode=1, ic="@", null=None, groups=None):
    return {"kind": "model", "input": inp, "text": text, "ic": ic, "null": null, "mode": mode if filters else 0,
            "filters": filters, "groups": groups or [1] * len(filters), "seed": 5}


# ---------------------------------------------------------------- write / read histories

def gen_hist_value(rng):
    r = rng.random()
    if r < 0.4:
        return repr(float(rng.randint(0, 200)))
    if r < 0.75:
        return repr(round(rng.uniform(-50, 150), rng.randint(1, 3)))
    if r < 0.85:
        return repr(rng.uniform(-1, 1) * 10.0 ** rng.randint(-8, 8))
    if r < 0.92:
        return "nan"
    return rng.choice(["0.0", "-99.0", "1e-05", "123456789.125"])


def gen_history_case(rng: random.Random):
    """A model with a dataset, then a history of write_csv / write_model / dataset changes (values only with or
    without the datainfo passed along, added / dropped columns, removed rows) writing to the same and to other
    paths with force True / False; after every step the files and after every write the read-back are checked."""
    extras = rng.sample(["WGT", "APGR", "X1", "AGE"], rng.randint(0, 3))
    cols = ["ID", "TIME", "DV"] + extras
    nrows = rng.randint(2, 6)
    rows, cid, t = [], 1, 0.0
    for i in range(nrows):
        if i and rng.random() < 0.4:
            cid += 1
            t = 0.0
        rows.append([repr(float(cid)), repr(t)] + [gen_hist_value(rng) for _ in cols[2:]])
        t += rng.choice([0.5, 1.0, 2.0])
    # $INPUT forms (about half of the histories): record-number / text columns that $INPUT drops — anonymous
    # (DROP, SKIP: the dataset column is _DROPn), X=DROP, DROP=X — before ID (first column of the file), between and
    # after the data columns; DV under a synonym.  The data file header carries the file's own names.
    inp, dcols, dropped = None, list(cols), []
    if rng.random() < 0.5:
        def drop_form(name):
            form = rng.randrange(4)
            w = rng.choice(["DROP", "SKIP"])
            return [w, None] if form < 2 else ([name, w] if form == 2 else [w, name])
        inp = [[c, None] for c in cols]
        if rng.random() < 0.3:
            inp[2] = rng.choice([["CONC", "DV"], ["DV", "CONC"]])
        lead = rng.sample(["REC", "ROW", "C", "SITE"], wchoice(rng, [(1, 70), (2, 12), (0, 18)]))
        trail = rng.sample(["FLAG", "COMM", "LAB"], wchoice(rng, [(0, 60), (1, 30), (2, 10)]))
        newcols, newinp, newrows = [], [], [[] for _ in rows]

        def add_dropped(name):
            newcols.append(name)
            newinp.append(drop_form(name))
            kind = rng.randrange(3)
            for i_, nr in enumerate(newrows):
                # the first item of a row must not start with a letter, '#' or '@' (IGNORE=@ would drop the row)
                pool_ = ["12:30", "7", "0.50", "2021-03-01", "10", "3"] if not newcols[:-1] else ["a", "b", "x1", "12:30", "7", "0.50", "F"]
                nr.append(str(i_ + 1) if kind == 0 else rng.choice(pool_))
        for nm_ in lead:
            add_dropped(nm_)
        for j, c in enumerate(cols):
            newcols.append(c)
            newinp.append(inp[j])
            for i_, nr in enumerate(newrows):
                nr.append(rows[i_][j])
            if j >= 1 and rng.random() < 0.1:
                add_dropped(rng.choice(["MID", "NOTE"]) + str(j))
        for nm_ in trail:
            add_dropped(nm_)
        cols, inp, rows = newcols, newinp, newrows
        dcols, anon = [], 1
        for kk, vv in inp:
            if vv is None and kk in ("DROP", "SKIP"):
                dcols.append(f"_DROP{anon}")
                anon += 1
                dropped.append(dcols[-1])
            elif vv is None:
                dcols.append(kk)
            elif kk in ("DROP", "SKIP") or vv in ("DROP", "SKIP"):
                dcols.append(vv if kk in ("DROP", "SKIP") else kk)
                dropped.append(dcols[-1])
            else:
                dcols.append(vv if kk in RESERVED else kk)
    numeric = [c for c in dcols if c not in dropped and c not in ("ID", "TIME")]
    # first-column labels for the label-level check of the generated IGNORE character
    labels = [rng.choice("ABCXYZabcxyz__#@$%&*!19") + "".join(rng.choice("ABCDIXY_019") for _ in range(rng.randint(0, 5)))
              for _ in range(3)] + [f"_DROP{rng.randint(1, 12)}", rng.choice(dcols)]

    anonymous = any(c.startswith("_DROP") for c in dropped)

    def change():
        r = rng.random()
        col = rng.choice(numeric)
        if anonymous and not r < 0.55:
            # with anonymous DROP columns only value / row changes (adding or removing columns renumbers _DROPn: outside)
            return ["filter_rows", rng.random() < 0.6, [rng.random() < 0.7 for _ in range(8)]]
        if r < 0.55:
            return ["set_values", rng.random() < 0.7, col, rng.choice(["mul", "add", "nan", "round"]),
                    rng.choice([1000.0, 0.5, 2.0, -1.0, 0.001, 3.25])]
        if r < 0.7:
            return ["add_column", rng.choice(["NEW1", "COV2", "FLAG"]), [gen_hist_value(rng) for _ in range(8)]]
        if r < 0.8 and extras:
            return ["drop_column", rng.choice(extras)]
        return ["filter_rows", rng.random() < 0.6, [rng.random() < 0.7 for _ in range(8)]]

    def write():
        return ["write_csv", wchoice(rng, [("A.csv", 30), ("B.csv", 20), ("cur", 30), ("dir", 20)]), rng.random() < 0.65]

    ops, nm = [], [1]

    def wmodel():
        nm[0] += 1
        return ["write_model", f"m{nm[0]}.mod", rng.random() < 0.8]

    for _ in range(rng.randint(2, 7)):
        r = rng.random()
        ops.append(write() if r < 0.4 else (change() if r < 0.75 else wmodel()))
    if rng.random() < 0.6:
        tgt = rng.choice(["A.csv", "B.csv", "cur"])
        ops += [["write_csv", tgt, True], wmodel(), change(), ["write_csv", tgt if rng.random() < 0.8 else "cur", True], wmodel()]
    case = {"kind": "history", "cols": cols, "rows": rows, "ops": ops, "seed": rng.randrange(1 << 30)}
    if inp is not None:
        case["input"] = inp
    case["labels"] = labels
    return case


def gen_cases(rng: random.Random, n: int, tier: str):
    out = []
    for _ in range(n):
        r = rng.random()
        out.append(gen_roundtrip_case(rng) if r < 0.05 else (gen_model_case(rng) if r < 0.22 else
                                                              (gen_history_case(rng) if r < 0.30 else gen_read_case(rng))))
    return out


def _rc(text, names, **kw):
    c = {"kind": "read", "text": text, "ic": "#", "names": names, "drop": [False] * len(names), "null": "0", "mode": 0,
         "filters": [], "seed": 1}
    c.update(kw)
    return c


def corpus_cases():
    return [
        # F10 (fixed in ed4d181): first row has more items than $INPUT
        _rc("1,2,3,4\n", ["A", "B", "C"]),
        _rc("1,2,3\n4,5,6,7\n", ["A", "B", "C"]),          # later surplus row: fine
        # short first row cuts later complete rows
        _rc("1,2\n4,5,6,7\n", ["A", "B", "C", "D"]),
        # single blank line in the middle (accepted before 8ee6a73)
        _rc("1,2\n\n4,3\n", ["A", "B"]),
        _rc("1,2\n\n\n4,3\n", ["A", "B"]),
        # signed mantissa with D exponent (rejected before d532311)
        _rc("1,-5D1\n", ["A", "B"]),
        # malformed number (accepted before d532311)
        _rc("1,2-1-3\n", ["A", "B"]),
        # comment on an unterminated last line (kept before 82e4d59)
        _rc("1,2\n#4,3", ["A", "B"]),
        # IGNORE=^ (re.error before 0a05222)
        _rc("1,2\n", ["A", "B"], ic="^"),
        _rc("^c\n1,2\n\\x\n", ["A", "B"], ic="^"),
        _rc("\\c\n1,2\n", ["A", "B"], ic="\\"),
        _rc("1,2\n  ", ["A", "B"]),
        # the text of a comment line is free: blank before TAB, separators only, over-long, unterminated
        _rc("# dose changed \there\n1,2\n# , \t ,\n3,4\n#\t\t", ["A", "B"]),
        _rc("ID \tTIME\n1,2\n \tx y\n3,4\n", ["ID", "TIME"], ic="@"),
        _rc("C 123456789012345678901234567890 \t.\n1,2\n", ["A", "B"], ic="C"),
        # missing-data token in ID
        _rc("-99,1\n1,3\n", ["ID", "B"]),
        _rc("-99,1\n1,3\n-99,2\n", ["ID", "B"]),
        _rc("1e400,1\n", ["ID", "B"]),
        _rc("-0,1\n2,3\n", ["ID", "B"]),         # reused ids (NaN) are renumbered: no error
        # signed comparison value reached with no rows left
        _rc("1,2\n3,4\n", ["A", "B"], mode=1, filters=[["A", "sne", "x", "A.NE.x"], ["B", "ge", "-3", "B.GE.-3"]]),
        # filters in order: the illegal item is ignored before the numeric comparison needs it
        _rc("1,2,x\n1,3,7\n3,4,9\n", ["A", "B", "C"], mode=1,
            filters=[["C", "seq", "x", "C.EQ.x"], ["C", "gt", "8", "C.GT.8"]]),
        _rc("1,2,x\n1,3,7\n3,4,9\n", ["A", "B", "C"], mode=1,
            filters=[["C", "gt", "8", "C.GT.8"], ["C", "seq", "x", "C.EQ.x"]]),
        # ids reused -> renumbered; TIME with clock text; DATE keeps TIME raw
        _rc("1,0,5\n2,1,6\n1,2,7\n", ["ID", "TIME", "DV"]),
        _rc("1,12:30,5\n1,1,6\n", ["ID", "TIME", "DV"]),
        _rc("1 ,  2\t 3\n,4,,\n", ["ID", "TIME", "DATE", "DV"], ic="@"),
        # model level: a text condition on a synonym column written before a numeric condition (and the other way round)
        _mc([["ID", None], ["TIME", None], ["CONC", "DV"], ["WGT", None]],
            "ID,TIME,DV,WGT\n1,0,10.5,70\n1,1,x,x\n2,0,11,120\n3,0,7,65\n",
            [["DV", "seq", "x", "DV.EQ.x"], ["WGT", "gt", "100", "WGT.GT.100"]]),
        _mc([["ID", None], ["TIME", None], ["DV", "CONC"], ["WGT", None]],
            "ID,TIME,DV,WGT\n1,0,10.5,70\n1,1,x,x\n2,0,11,120\n3,0,7,65\n",
            [["WGT", "gt", "100", "WGT.GT.100"], ["CONC", "seq", "x", "CONC.EQ.x"]], groups=[2]),
        _mc([["ID", None], ["DOSE", "AMT"], ["DROP", None], ["SEX", "DROP"], ["SKIP", "X1"]],
            "#h\n1,0,a,b,c\n2,5,d,e,f\n", [["AMT", "ge", "1", "AMT>=1"], ["X1", "seq", "c", "X1=c"]], ic=None, mode=2),
        # history: write, change the values with the datainfo kept, write again to the same path, read back
        {"kind": "history", "cols": ["ID", "TIME", "DV", "WGT"],
         "rows": [["1.0", "0.0", "1.5", "70.0"], ["1.0", "1.0", "2.5", "70.0"], ["2.0", "0.0", "nan", "81.5"]],
         "ops": [["write_csv", "A.csv", False], ["write_model", "m2.mod", True], ["set_values", True, "WGT", "mul", 1000.0],
                 ["write_csv", "A.csv", True], ["write_model", "m3.mod", True], ["write_csv", "A.csv", False],
                 ["set_values", False, "DV", "add", 2.0], ["write_model", "m4.mod", True], ["write_csv", "dir", True],
                 ["add_column", "NEW1", ["1.0", "2.0", "3.0"]], ["write_csv", "cur", True], ["write_model", "m5.mod", False]],
         "seed": 9},
        # history with $INPUT DROP forms: the first column is an anonymous DROP (dataset label _DROP1, header needs IGNORE=_)
        {"kind": "history", "cols": ["REC", "ID", "TIME", "DV", "FLAG"],
         "input": [["DROP", None], ["ID", None], ["TIME", None], ["CONC", "DV"], ["FLAG", "SKIP"]],
         "rows": [["1", "1.0", "0.0", "1.5", "a"], ["2", "1.0", "1.0", "2.5", "b"], ["3", "2.0", "0.0", "3.25", "x1"]],
         "ops": [["set_values", False, "CONC", "mul", 2.0], ["write_model", "m2.mod", True], ["write_csv", "A.csv", True],
                 ["write_model", "m3.mod", True]],
         "labels": ["_DROP1", "ID", "_X", "#ID", "@A", "X_1"], "seed": 11},
        {"kind": "roundtrip", "cols": ["ID", "TIME", "DV"], "rows": [["1.0", "0.0", "-2.2250738585072014e-308"],
                                                                       ["2.0", "1.0", "nan"]], "seed": 3},
    ]


def shrink(case):
    if case["kind"] == "history":
        ops = case["ops"]
        for i in range(len(ops)):
            if len(ops) > 1:
                c = dict(case)
                c["ops"] = ops[:i] + ops[i + 1:]
                yield c
        if len(case["rows"]) > 1:
            c = dict(case)
            c["rows"] = case["rows"][:-1]
            yield c
        if len(case.get("labels", [])) > 1:
            for i in range(len(case["labels"])):
                c = dict(case)
                c["labels"] = case["labels"][:i] + case["labels"][i + 1:]
                yield c
        if "input" in case:
            # remove one column (file column, $INPUT option and cells); ID / TIME / DV stay
            for j in range(len(case["cols"])):
                if case["cols"][j] in ("ID", "TIME", "DV"):
                    continue
                c = dict(case)
                c["cols"] = case["cols"][:j] + case["cols"][j + 1:]
                c["input"] = case["input"][:j] + case["input"][j + 1:]
                c["rows"] = [r[:j] + r[j + 1:] for r in case["rows"]]
                yield c
        if len(case["cols"]) > 3 and "input" not in case:
            c = dict(case)
            c["cols"] = case["cols"][:-1]
            c["rows"] = [r[:-1] for r in case["rows"]]
            c["ops"] = [o for o in ops if not (o[0] in ("set_values", "drop_column") and case["cols"][-1] in o)]
            yield c
        return
    if case["kind"] == "model":
        lines = case["text"].split("\n")
        for i in range(len(lines)):
            if len(lines) > 1:
                c = dict(case)
                c["text"] = "\n".join(lines[:i] + lines[i + 1:])
                yield c
        for i in range(len(case["filters"])):
            if len(case["filters"]) > 1:
                c = dict(case)
                c["filters"] = case["filters"][:i] + case["filters"][i + 1:]
                c["groups"] = [1] * len(c["filters"])
                yield c
        if case["groups"] != [1] * len(case["filters"]):
            c = dict(case)
            c["groups"] = [1] * len(case["filters"])
            yield c
        if case["null"] is not None:
            c = dict(case)
            c["null"] = None
            yield c
        return
    if case["kind"] != "read":
        rows = case["rows"]
        for i in range(len(rows)):
            if len(rows) > 1:
                c = dict(case)
                c["rows"] = rows[:i] + rows[i + 1:]
                yield c
        return
    lines = case["text"].split("\n")
    for i in range(len(lines)):
        if len(lines) > 1:
            c = dict(case)
            c["text"] = "\n".join(lines[:i] + lines[i + 1:])
            yield c
    for i in range(len(case["filters"])):
        c = dict(case)
        c["filters"] = case["filters"][:i] + case["filters"][i + 1:]
        if not c["filters"]:
            c["mode"] = 0
        yield c
    if len(case["names"]) > 1:
        c = dict(case)
        used = {f[0] for f in case["filters"]}
        if case["names"][-1] not in used:
            c["names"] = case["names"][:-1]
            c["drop"] = case["drop"][:-1]
            yield c
    # simplify separators / items
    t = case["text"]
    for a, b in (("\t", ","), ("  ", " "), (" ,", ","), (", ", ","), (" ", ",")):
        if a in t:
            c = dict(case)
            c["text"] = t.replace(a, b, 1)
            yield c


# ---------------------------------------------------------------- real-code side

def worker_init():
    global pd, np, ds, DatasetError, EmptyDataError, IntCastingNaNError, read_model, NMTranParser, nm_parsing, write_csv, write_model
    warnings.simplefilter("ignore")
    import numpy as np  # noqa
    import pandas as pd  # noqa
    from pandas.errors import EmptyDataError, IntCastingNaNError  # noqa
    import pharmpy.model.external.nonmem.dataset as ds  # noqa
    from pharmpy.model import DatasetError  # noqa
    from pharmpy.modeling import read_model, write_csv, write_model  # noqa
    from pharmpy.model.external.nonmem.nmtran_parser import NMTranParser  # noqa
    import pharmpy.model.external.nonmem.parsing as nm_parsing  # noqa


def err_class(e):
    msg = str(e)
    if isinstance(e, DatasetError):
        if "TAB" in msg:
            return "DatasetError:space-tab"
        if "blank lines" in msg:
            return "DatasetError:blank-line"
        return "DatasetError:item"
    if isinstance(e, KeyError):
        if "not unique" in msg:
            return "KeyError:not-unique"
        if "[None] not found" in msg or "not found in axis" in msg:
            return "KeyError:drop-none"
        return "KeyError:other"
    if isinstance(e, EmptyDataError):
        return "EmptyDataError"
    if isinstance(e, IntCastingNaNError):
        return "IntCastingNaNError"
    if isinstance(e, re.error):
        return "re.error"
    if isinstance(e, AttributeError) and "UnaryOp" in msg:
        return "AttributeError:query"
    return "other:" + type(e).__name__


def canon_cell(v):
    if v is None:
        return ["none"]
    if isinstance(v, str):
        return ["s", v]
    if isinstance(v, (int, np.integer)):
        return ["f", float(v)]
    if isinstance(v, (float, np.floating)):
        v = float(v)
        return ["nan"] if math.isnan(v) else ["f", v]
    return ["?", repr(v)]


def real_read(case):
    kw = {}
    if case["mode"] == 1:
        kw["ignore"] = [f[3] for f in case["filters"]]
    elif case["mode"] == 2:
        kw["accept"] = [f[3] for f in case["filters"]]
    with warnings.catch_warnings():
        warnings.simplefilter("ignore")
        try:
            df = ds.read_nonmem_dataset(StringIO(case["text"]), ignore_character=case["ic"], colnames=list(case["names"]),
                                        drop=list(case["drop"]), null_value=case["null"], missing_data_token=MISSING, **kw)
        except Exception as e:
            return ["err", err_class(e), f"{type(e).__name__}: {str(e)[:120]}"]
    idint = False
    for idc in ("ID", "L1"):
        if idc in df.columns:
            idint = str(df[idc].dtype) == "int32"
            break
    if list(df.columns) != list(case["names"]):
        return ["err", "other:columns", f"columns {list(df.columns)}"]
    rows = [[canon_cell(v) for v in row] for row in df.itertuples(index=False, name=None)]
    return ["ok", idint, rows]


def float_same(a, b):
    if a == b:
        return a != 0 or math.copysign(1, a) == math.copysign(1, b)
    return False


def model_cell(c):
    if c == "nan":
        return ["nan"]
    if c == "none":
        return ["none"]
    if c[0] == "f":
        return ["f", float(c[1])]
    return ["s", c[1]]


def cells_equal(a, b):
    if a[0] != b[0]:
        return False
    if a[0] == "f":
        return float_same(a[1], b[1])
    return a == b


def model_read(case, drv):
    req = ["read", case["text"], case["ic"], [str(x) for x in case["names"]], ["true" if d else "false" for d in case["drop"]],
           case["null"], MISSING, case["mode"] if case["filters"] else 0, [[f[0], f[1], f[2]] for f in case["filters"]]]
    ans = drv.ask(req)
    if ans[0] == "err":
        return ["err", ans[1]]
    return ["ok", ans[1] == "true", [[model_cell(c) for c in row] for row in ans[2]]]


# ---------------------------------------------------------------- reference reader (docs/NONMEM.rst)

NUM_RE = None


def spec_number(s):
    """Documented number forms -> (neg, mantissa, exp10) or None."""
    if s in ("+", "-"):
        return (False, 0, 0)
    m = re.fullmatch(r'([+-]?)(?:(\d+)(?:\.(\d*))?|\.(\d+))(?:[eEdD]([+-]?\d+)|([+-]\d+))?', s)
    if not m:
        return None
    sign, ip, fp, fp2, e1, e2 = m.groups()
    ip = ip or ""
    fp = (fp if fp is not None else "") if fp2 is None else fp2
    e = int(e1) if e1 is not None else (int(e2) if e2 is not None else 0)
    return (sign == "-", int(ip + fp or "0"), e - len(fp))


def dec_float(d):
    neg, m, e = d
    return float(f"{'-' if neg else ''}{m}e{e}")


def dec_frac(d):
    neg, m, e = d
    v = Fraction(m) * (Fraction(10) ** e)
    return -v if neg else v


def ref_tokens(line):
    """Tokenizer state machine of the documented rules. Returns items or raises ValueError('unspec')."""
    items = []
    cur = None          # None: no item in progress
    state = "lead"
    for ch in line:
        if state == "lead":
            if ch == " ":
                continue
            if ch in ",\t":
                items.append("")
                state = "delim"
            else:
                cur = ch
                state = "item"
        elif state == "item":
            if ch == " ":
                items.append(cur)
                cur = None
                state = "gap"
            elif ch in ",\t":
                items.append(cur)
                cur = None
                state = "delim"
            else:
                cur += ch
        elif state == "gap":
            if ch == " ":
                continue
            if ch in ",\t":
                state = "delim"
            else:
                cur = ch
                state = "item"
        else:  # delim
            if ch == " ":
                continue
            if ch in ",\t":
                items.append("")
            else:
                cur = ch
                state = "item"
    if state == "item":
        items.append(cur)
    elif state == "delim":
        items.append("")
    elif state == "lead":
        items.append("")
    return items


class Unspec(Exception):
    def __init__(self, why, fired=frozenset()):
        super().__init__(why)
        self.fired = frozenset(fired)


SHORT_PREFIX = re.compile(r'([+\-]?)([^+\-dD]*)([+-])([^+\-dD]*)')


def ref_item(x, null, emu, fired=None):
    """documented item conversion -> ('f', float, Fraction) | ('nan',) | raises ValueError"""
    is_null = x is None or x in (".", "")
    if is_null:
        x = null
    if len(x) > 24:
        raise ValueError("item too long")
    if x == MISSING:
        return ("nan",)
    d = spec_number(x)
    if d is not None and "signed-d" in emu and re.fullmatch(r'[+-][0-9.]*[dD].*', x):
        if fired is not None:
            fired.add("signed-d")
        raise ValueError("emulated signed-D rejection")
    if d is None and "malformed" in emu:
        m = SHORT_PREFIX.match(x)
        if m and m.end() < len(x):
            d = spec_number(x[:m.end()])
            if d is not None and fired is not None:
                fired.add("malformed")
    if d is None:
        raise ValueError("not a number")
    return ("f", dec_float(d), dec_frac(d))


def is_comment(ic, line):
    if ic == "@":
        s = line.lstrip(" \t")
        return bool(s) and (s[0].isascii() and s[0].isalpha() or s[0] in "#@")
    return line.startswith(ic)


def ref_read(case, emu=frozenset()):
    """Reference outcome: ['ok', rows] | ['err', class]; raises Unspec where the documented rules do not decide."""
    text, ic, names, drop, null = case["text"], case["ic"], case["names"], case["drop"], case["null"]
    n = len(names)
    fired = set()
    nd = [nm for nm, d in zip(names, drop) if not d]
    if len(nd) != len(set(nd)):
        return ["err", "KeyError:not-unique"]
    if len(names) != len(set(names)):
        raise Unspec("duplicate-names", fired)
    if ic in "^\\":
        if "ic-meta" in emu:
            return ["err", "re.error"]
    segs = text.split("\n")
    term, last = segs[:-1], segs[-1]
    term = [l for l in term if not is_comment(ic, l)]
    last_keep = last != "" and not (is_comment(ic, last) and "last-comment" not in emu)
    if last != "" and is_comment(ic, last) and "last-comment" in emu:
        fired.add("last-comment")
    lines = term + ([last] if last_keep else [])
    for l in lines:
        if " \t" in l:
            return ["err", "DatasetError:space-tab"]
    blanks = [i for i, l in enumerate(lines) if l.strip(" \t") == ""]
    if blanks and "blank" not in emu and all(i >= len(term) for i in blanks):
        # only the unterminated remainder of the text is blank: "line" or trailing white space? not decided
        raise Unspec("blank-remainder", fired)
    if blanks:
        if "blank" in emu:
            # the code's regexp only sees a blank newline-terminated line that is followed by an empty line
            # or by the end of the text; pandas silently skips the others
            hit = any(i < len(term) and ((i == len(term) - 1 and last == "") or (i + 1 < len(term) and term[i + 1] == ""))
                      for i in blanks)
            if hit:
                return ["err", "DatasetError:blank-line"]
            lines = [l for i, l in enumerate(lines) if i not in blanks]
            fired.add("blank")
        else:
            return ["err", "DatasetError:blank-line"]
    for l in lines:
        s = l.strip(" ")
        if s and (s[0] == "\t" or s[-1] == "\t"):
            raise Unspec("edge-tab", fired)
    rows = [ref_tokens(l) for l in lines]
    if not rows:
        return ["err", "EmptyDataError"]
    if "surplus" in emu and len(rows[0]) > n:
        return ["err", "KeyError:drop-none"]
    if "short-first" in emu:
        w = len(rows[0])
        if w < n and any(len(r) > w for r in rows):
            fired.add("short-first")
        rows = [r[:w] for r in rows]
    # pad / strip every row to the $INPUT columns; None = NULL padding
    table = [(r + [None] * (n - len(r)))[:n] for r in rows]
    # filters, in order
    if case["mode"] and case["filters"]:
        ignore = case["mode"] == 1
        for col, op, val, _ in case["filters"]:
            j = names.index(col)
            keep = []
            if "signed-empty" in emu and op not in ("seq", "sne") and not table and val[:1] in "+-":
                return ["err", "AttributeError:query"]
            for r in table:
                x = r[j]
                if x is None or x in ("", "."):
                    raise Unspec("filter-on-null", fired)
                if op in ("seq", "sne"):
                    holds = (x == val) == (op == "seq")
                else:
                    v = dec_float(spec_number(val))
                    try:
                        c = ref_item(x, null, emu, fired)
                    except ValueError:
                        return ["err", "DatasetError:item"]
                    if c[0] == "nan":
                        holds = op == "ne"
                    else:
                        a = c[1]      # float64 comparison, as documented for NONMEM data (values are doubles)
                        holds = {"eq": a == v, "ne": a != v, "lt": a < v, "gt": a > v, "le": a <= v, "ge": a >= v}[op]
                if holds != ignore:
                    keep.append(r)
            table = keep
    special = ("TIME", "DATE", "DAT1", "DAT2", "DAT3")
    out = [[None] * n for _ in table]
    for j, (nm, d) in enumerate(zip(names, drop)):
        if d or nm in special:
            for i, r in enumerate(table):
                out[i][j] = ("raw", r[j])
            continue
        for i, r in enumerate(table):
            try:
                out[i][j] = ref_item(r[j], null, emu, fired)
            except ValueError:
                return ["err", "DatasetError:item"]
    idn = "ID" if "ID" in names else ("L1" if "L1" in names else None)
    if idn is not None:
        j = names.index(idn)
        if drop[j]:
            raise Unspec("id-dropped", fired)
        ids = [r[j] for r in out]
        # pharmpy renumbers ids that are reused (diff != 0 count vs number of distinct values; NaN: every
        # difference with it counts as a change, all NaN are one distinct value)
        vals = [None if c[0] == "nan" else c[1] for c in ids]
        chg = [i == 0 or vals[i] is None or vals[i - 1] is None or vals[i] != vals[i - 1] for i in range(len(vals))]
        if sum(chg) != len(set(vals)):
            k = 0
            for i in range(len(vals)):
                if chg[i]:
                    k += 1
                out[i][j] = ("f", float(k), Fraction(k))
        elif (None in vals or any(math.isinf(v) for v in vals if v is not None)) and "id-nan" in emu:
            return ["err", "IntCastingNaNError"]
        cur = [out[i][j] for i in range(len(out))]
        if all(c[0] == "f" and math.isfinite(c[1]) and c[1] == int(c[1]) and abs(c[1]) < 2 ** 31 for c in cur):
            for i, c in enumerate(cur):      # the column becomes int32: -0.0 is stored as 0
                if c[1] == 0:
                    out[i][j] = ("f", 0.0, Fraction(0))
    if "TIME" in names and not any(x in names for x in special[1:]):
        j = names.index("TIME")
        try:
            conv = [ref_item(r[j], null, emu, fired) for r in table]
            for i, c in enumerate(conv):
                out[i][j] = c
        except ValueError:
            pass
    return ["ok", out]


def ref_matches(ref, real, case):
    """Compare the reference outcome with the real one."""
    if ref[0] == "err":
        return real[0] == "err" and real[1] == ref[1]
    if real[0] != "ok":
        return False
    rrows, qrows = ref[1], real[2]
    if len(rrows) != len(qrows):
        return False
    for a, b in zip(rrows, qrows):
        if len(a) != len(b):
            return False
        for j, (x, y) in enumerate(zip(a, b)):
            if case.get("mask_drop") and case["drop"][j]:
                continue            # model level: a DROPped column is cast to str by the datainfo dtype step
            if x[0] == "raw":
                if x[1] is None or x[1] in ("", "."):
                    continue        # NULL in an unparsed column: representation not specified
                if y != ["s", x[1]]:
                    return False
            elif x[0] == "nan":
                if y != ["nan"]:
                    return False
            else:
                if y[0] != "f" or not float_same(y[1], x[1]):
                    return False
    return True


EMU_CLASS = {
    "surplus": "surplus-columns-keyerror",
    "short-first": "short-first-row-truncates-later-rows",
    "blank": "blank-line-accepted",
    "signed-d": "signed-d-exponent-rejected",
    "malformed": "malformed-number-accepted",
    "last-comment": "unterminated-comment-line-kept",
    "ic-meta": "ignore-char-regex-meta",
    "id-nan": "id-missing-token-intcast",
    "signed-empty": "numeric-filter-signed-value-on-empty-table",
}


def real_number(s):
    try:
        v = float(ds.convert_fortran_number(s))
        return ["nan"] if math.isnan(v) else ["ok", v]
    except ValueError:
        return ["err"]


def judge_with_reference(case, real, tags, mon, differ_cls, try_orders=False):
    """Compare the real outcome with the reference reader (documented rules). A disagreement is attributed to a known
    defect class only if emulating exactly that defect reproduces the real outcome; with try_orders, a disagreement
    that is reproduced by applying the same conditions in another order gets its own class."""
    try:
        ref = ref_read(case)
    except Unspec as u:
        tags.append(f"ref-unspecified:{u}")
        return
    if ref_matches(ref, real, case):
        tags.append("ref:agree")
        return
    # which known defects could apply to this text? try emulating them, smallest set first
    found = None
    loose = None
    flags = list(EMU_CLASS)
    for size in range(1, 4):
        for sub in itertools.combinations(flags, size):
            try:
                r2 = ref_read(case, frozenset(sub))
            except Unspec as u2:
                # the emulated defects all took effect, afterwards the documented rules do not decide
                if loose is None and u2.fired == frozenset(sub):
                    loose = sub
                continue
            if ref_matches(r2, real, case):
                found = sub
                break
        if found:
            break
    refd = ref[:2] if ref[0] == "err" else "ok table"
    reald = real[:3] if real[0] == "err" else "ok table"
    if not found and loose:      # an exact reproduction is preferred to "took effect, then undecided"
        found = loose
        tags.append("ref:known-defect-then-unspecified")
    # only when no known defect takes effect on this input: is the outcome that of another order of the same conditions?
    if not found and try_orders and 2 <= len(case["filters"]) <= 5:
        for perm in itertools.permutations(range(len(case["filters"]))):
            if list(perm) == sorted(perm):
                continue
            c2 = dict(case)
            c2["filters"] = [case["filters"][i] for i in perm]
            try:
                r2 = ref_read(c2)
            except Unspec:
                continue
            if ref_matches(r2, real, c2):
                mon.append({"cls": "filters-applied-out-of-written-order",
                            "what": f"reader gives {reald}, the documented rules with the conditions in the order written give "
                                    f"{refd}; the real outcome is what the order {[case['filters'][i][3] for i in perm]} gives"})
                tags.append("ref:order-defect")
                return
    if found:
        for fl in found:
            mon.append({"cls": EMU_CLASS[fl], "what": f"reader gives {reald}, documented rules give {refd}; "
                        f"reproduced by emulating {found} in the reference"})
        tags.append("ref:known-defect")
    else:
        detail = ""
        if ref[0] == "ok" and real[0] == "ok":
            detail = f" real rows {real[2]} reference rows {[[c[:2] for c in r] for r in ref[1]]}"
        mon.append({"cls": differ_cls, "what": f"reader gives {reald}, documented rules give {refd}.{detail[:600]}"})



# ---------------------------------------------------------------- run

def run_case(case, drv):
    if case["kind"] == "roundtrip":
        return run_roundtrip(case, drv)
    if case["kind"] == "model":
        return run_model_case(case, drv)
    if case["kind"] == "history":
        return run_history_case(case, drv)
    k, mon, tags = [], [], []
    text = case["text"]
    real = real_read(case)
    tags.append("real:" + (real[1] if real[0] == "err" else "ok"))
    tags.append(f"ic={case['ic']}")
    tags.append(f"ncols={len(case['names'])}")
    tags.append("mode=" + ["none", "ignore", "accept"][case["mode"]])
    for f in case["filters"]:
        tags.append("op:" + f[1])
    segs = text.split("\n")
    data_lines = [l for l in segs if l.strip() != ""]
    seps_seen = set()
    for l in data_lines:
        for m in re.finditer(SEP_REGEX, l.strip()):
            s = m.group(0)
            seps_seen.add(s.replace(" ", "_").replace("\t", "T"))
    for s in sorted(seps_seen):
        tags.append("sep:" + (s if len(s) <= 4 else "long"))

    # ---- K1: whole read
    outside = False
    if drv is not None:
        m = model_read(case, drv)
        if m[0] == "err" and m[1] == "outside":
            outside = True
            tags.append("model-outside")
        elif m[0] == "err" or real[0] == "err":
            if m[:2] != real[:2]:
                k.append(f"read: model {m[:2]} code {real[:2] + real[2:3]}")
        else:
            if m[1] != real[1]:
                k.append(f"read: ID int32 cast: model {m[1]} code {real[1]}")
            if len(m[2]) != len(real[2]) or any(len(a) != len(b) for a, b in zip(m[2], real[2])):
                k.append(f"read: shape: model {len(m[2])} rows, code {len(real[2])} rows")
            else:
                for i, (a, b) in enumerate(zip(m[2], real[2])):
                    for j, (x, y) in enumerate(zip(a, b)):
                        if not cells_equal(x, y):
                            k.append(f"read: cell[{i}][{case['names'][j]}]: model {x} code {y}")
                            break
                    if k:
                        break

    # ---- K2 / Mon: every line through the separator regex, every item through the number conversion
    seen_items = set()
    for l in dict.fromkeys(segs):
        py_items = re.split(SEP_REGEX, l.strip())
        if drv is not None:
            a = drv.ask(["split", l])
            if a[0] != py_items:
                k.append(f"split {l!r}: model {a[0]} re.split {py_items}")
            # model-vs-spec sanity on concrete data (the theorem's statement)
            if a[2] == "true" and a[3] == "true" and a[0] != a[1]:
                k.append(f"split {l!r}: model {a[0]} differs from spec {a[1]} although the hypotheses of split_matches_rules hold")
            rt = ref_tokens(l)
            if a[1] != rt:
                k.append(f"spec tokenizer {l!r}: lean {a[1]} python reference {rt}")
        for it in py_items:
            if it in seen_items or len(it) > 40:
                continue
            seen_items.add(it)
            rn = real_number(it)
            sd = spec_number(it)
            if drv is not None:
                a = drv.ask(["num", it])
                mm = ["err"] if a[0][0] == "err" else ["ok", float(a[0][1])]
                if mm[0] != rn[0] or (mm[0] == "ok" and not float_same(mm[1], rn[1])):
                    if not (rn[0] == "nan"):
                        k.append(f"convert_fortran_number({it!r}): model {mm} code {rn}")
                ms = None if a[1][0] == "err" else float(a[1][1])
                ps = None if sd is None else dec_float(sd)
                if (ms is None) != (ps is None) or (ms is not None and not float_same(ms, ps)):
                    k.append(f"spec number {it!r}: lean {ms} python reference {ps}")
            if it in ("", "."):
                continue
            if sd is None:
                tags.append("item:illegal")
                if rn[0] == "ok":
                    mm_ = SHORT_PREFIX.match(it)
                    if mm_ and mm_.end() < len(it) and spec_number(it[:mm_.end()]) is not None:
                        mon.append({"cls": "malformed-number-accepted",
                                    "what": f"convert_fortran_number({it!r}) = {rn[1]}: not a documented number form"})
                    else:
                        mon.append({"cls": "number-accepted-outside-grammar",
                                    "what": f"convert_fortran_number({it!r}) = {rn[1]}: not a documented number form"})
            else:
                tags.append("item:number")
                if rn[0] == "err":
                    if re.fullmatch(r'[+-][0-9.]*[dD].*', it):
                        mon.append({"cls": "signed-d-exponent-rejected",
                                    "what": f"convert_fortran_number({it!r}) raises; documented value {dec_float(sd)}"})
                    else:
                        mon.append({"cls": "number-rejected", "what": f"convert_fortran_number({it!r}) raises; documented value {dec_float(sd)}"})
                elif rn[0] == "ok" and not float_same(rn[1], dec_float(sd)):
                    mon.append({"cls": "number-value", "what": f"convert_fortran_number({it!r}) = {rn[1]}, documented value {dec_float(sd)}"})

    # ---- Mon: reference reader
    judge_with_reference(case, real, tags, mon, "read-differs-from-reference")

    # ---- Mon: the text of a comment line is free — replacing it by something else must not change the outcome
    ic = case["ic"]
    ncomm = [i for i, l in enumerate(segs) if is_comment(ic, l)]
    if ncomm:
        tags.append("comment-lines")
        if any(" \t" in segs[i] for i in ncomm):
            tags.append("comment-with-space-tab")
        plain = "Ax" if ic == "@" else ic + "x"
        c2 = dict(case)
        c2["text"] = "\n".join(plain if i in ncomm else l for i, l in enumerate(segs))
        real2 = real_read(c2)
        same = real2[:2] == real[:2] if real[0] == "err" or real2[0] == "err" else (
            real2[1] == real[1] and len(real2[2]) == len(real[2]) and
            all(len(a) == len(b) and all(cells_equal(x, y) for x, y in zip(a, b)) for a, b in zip(real2[2], real[2])))
        if not same:
            mon.append({"cls": "comment-text-changes-result",
                        "what": f"reading gives {real[:3] if real[0] == 'err' else 'a table'}; with the text of the comment lines "
                                f"{[segs[i] for i in ncomm]} replaced by {plain!r} it gives {real2[:3] if real2[0] == 'err' else 'a table'}"})

    nontrivial = (real[0] == "ok" and len(real[2]) >= 2 and len(case["names"]) >= 2) or \
        (real[0] == "err" and real[1].startswith("DatasetError") and len(data_lines) >= 2)
    return {"k": k, "mon": mon, "tags": tags, "nontrivial": bool(nontrivial)}


# ---------------------------------------------------------------- model-level run

FILT_RE = re.compile(r'^\s*(\w+)\s*(\.EQN\.|\.NEN\.|\.EQ\.|\.NE\.|\.LT\.|\.GT\.|\.LE\.|\.GE\.|==|=|/=|<=|>=|<|>)\s*(.*?)\s*$', re.S)
OP_OF_SPELL = {".EQN.": "eq", ".NEN.": "ne", ".EQ.": "seq", "==": "seq", "=": "seq", ".NE.": "sne", "/=": "sne",
               ".LT.": "lt", "<": "lt", ".GT.": "gt", ">": "gt", ".LE.": "le", "<=": "le", ".GE.": "ge", ">=": "ge"}
_CASE_NO = [0]


def parse_filter_text(t):
    m = FILT_RE.match(t)
    if not m:
        return None
    col, sp, val = m.groups()
    if len(val) >= 3 and val[0] == val[-1] and val[0] in "'\"":
        val = val[1:-1]
    return [col, OP_OF_SPELL[sp], val]


def model_code(case):
    inp = " ".join(k if v is None else f"{k}={v}" for k, v in case["input"])
    data = "data.csv"
    if case["ic"] is not None:
        data += f" IGNORE={case['ic']}"
    if case["null"] is not None:
        data += f" NULL={case['null']}"
    kw = "ACCEPT" if case["mode"] == 2 else "IGNORE"
    pos = 0
    for g in case["groups"]:
        data += f" {kw}=(" + ",".join(f[3] for f in case["filters"][pos:pos + g]) + ")"
        pos += g
    return (f"$PROBLEM c13\n$INPUT {inp}\n$DATA {data}\n$PRED\nY = THETA(1) + ETA(1) + EPS(1)\n"
            "$THETA 1\n$OMEGA 1\n$SIGMA 1\n$ESTIMATION METHOD=1\n")


def model_null_string(case):
    """str(data_record.null_value): '+', '-' and no NULL option mean 0; a digit d gives str(float(d))"""
    c = case["null"]
    return "0" if c in (None, "+", "-") else str(float(c))


def ref_columns(case):
    """$INPUT by the documented meaning: names (a synonym pair is known under the non-reserved name), DROP flags, and
    which column a name used in a condition refers to."""
    names, drop, alias = [], [], {}
    anon = 1
    for k, v in case["input"]:
        if v is None:
            if k in ("DROP", "SKIP"):
                names.append(f"_DROP{anon}")
                anon += 1
                drop.append(True)
            else:
                names.append(k)
                drop.append(False)
                alias[k] = k
        elif k in ("DROP", "SKIP") or v in ("DROP", "SKIP"):
            nm = v if k in ("DROP", "SKIP") else k
            names.append(nm)
            drop.append(True)
            alias[nm] = nm
        else:
            reserved, syn = (k, v) if k in RESERVED else ((v, k) if v in RESERVED else (None, None))
            if reserved is None:
                return None
            names.append(syn)
            drop.append(False)
            alias[syn] = syn
            alias[reserved] = syn
    return names, drop, alias


RESERVED = ['ID', 'L1', 'L2', 'DV', 'MDV', 'RAW_', 'MRG_', 'RPT_', 'TIME', 'DATE', 'DAT1', 'DAT2', 'DAT3', 'EVID', 'AMT',
            'RATE', 'SS', 'II', 'ADDL', 'CMT', 'PCMT', 'CALL', 'CONT']


def run_model_case(case, drv):
    k, mon, tags = [], [], ["kind:model"]
    from harness.common.paths import scratch_root
    import shutil
    code = model_code(case)
    _CASE_NO[0] += 1
    d = scratch_root() / f"c13-{os.getpid()}-{_CASE_NO[0]}"
    d.mkdir(parents=True, exist_ok=True)
    try:
        (d / "data.csv").write_text(case["text"])
        (d / "run1.mod").write_text(code)
        with warnings.catch_warnings():
            warnings.simplefilter("ignore")
            try:
                model = read_model(d / "run1.mod")
                df = model.dataset
                real_names = [str(c) for c in df.columns]
                idint = any(str(df[c].dtype) == "int32" for c in ("ID", "L1") if c in df.columns)
                real = ["ok", idint, [[canon_cell(v) for v in row] for row in df.itertuples(index=False, name=None)]]
            except Exception as e:
                real = ["err", err_class(e), f"{type(e).__name__}: {str(e)[:120]}"]
                real_names = None
    finally:
        shutil.rmtree(d, ignore_errors=True)
    tags.append("m-real:" + (real[1] if real[0] == "err" else "ok"))
    tags.append("m-mode=" + ["none", "ignore", "accept"][case["mode"]])
    tags.append(f"m-nfilters={len(case['filters'])}")
    nsyn = sum(1 for kk, v in case["input"] if v is not None and kk not in ("DROP", "SKIP") and v not in ("DROP", "SKIP"))
    tags.append(f"m-synonyms={nsyn}")

    # ---- pieces of the real model layer: $INPUT options, column info, conditions, synonym replacement
    cs = NMTranParser().parse(code)
    opts = [[o.key, o.value] for rec in cs.get_records("INPUT") for o in rec.all_options]
    if opts != [list(x) for x in case["input"]]:
        k.append(f"$INPUT options: written {case['input']} parsed {opts}")
    try:
        colnames, drop, repl, _ = nm_parsing.parse_column_info(cs)
        ci_real = ["ok", list(colnames), [bool(x) for x in drop], sorted([a, b] for a, b in repl.items())]
    except Exception as e:
        ci_real = ["err", err_class(e)]
        repl = None
    drec = cs.get_records("DATA")[0]
    trees = drec.accept if case["mode"] == 2 else drec.ignore
    written = [parse_filter_text(str(t)) for t in trees]
    if written != [f[:3] for f in case["filters"]]:
        k.append(f"$DATA conditions: written {[f[:3] for f in case['filters']]} parsed {written}")
    replaced_real = None
    if repl is not None and trees:
        replaced_real = [parse_filter_text(x) for x in nm_parsing.replace_synonym_in_filters(trees, repl)]
        order_sensitive = any(f[1] in ("seq", "sne") for f in case["filters"]) and any(f[1] not in ("seq", "sne") for f in case["filters"])
        if order_sensitive:
            tags.append("m-mixed-text-numeric")
        if any(f[0] in repl for f in case["filters"]):
            tags.append("m-filter-on-synonym")
    names_ref = ref_columns(case)
    if drv is not None:
        a = drv.ask(["colinfo", [[x for x in o if x is not None] for o in opts]])
        if a[0] == "err":
            if ci_real[0] != "err" or ci_real[1] != a[1]:
                k.append(f"parse_column_info: model {a} code {ci_real}")
        else:
            m_ci = ["ok", a[1], [x == "true" for x in a[2]], sorted(a[3])]
            if m_ci != ci_real:
                k.append(f"parse_column_info: model {m_ci} code {ci_real}")
        if replaced_real is not None:
            a = drv.ask(["replsyn", [[r_, s_] for r_, s_ in repl.items()], [f[:3] for f in case["filters"]]])
            if a != replaced_real:
                k.append(f"replace_synonym_in_filters: model {a} code {replaced_real}")
        # whole model-level read
        ic = case["ic"] or "#"
        a = drv.ask(["mread", case["text"], ic, [[x for x in o if x is not None] for o in opts], model_null_string(case), MISSING,
                     case["mode"] if case["filters"] else 0, [f[:3] for f in case["filters"]]])
        if a[0] == "err":
            if a[1] == "outside":
                tags.append("model-outside")
            elif real[0] != "err" or real[1] != a[1]:
                k.append(f"model read: model {a} code {real[:3] if real[0] == 'err' else 'ok'}")
        elif real[0] == "err":
            k.append(f"model read: model ok code {real[:3]}")
        else:
            mnames, mdrop = a[2], [x == "true" for x in a[3]]
            mrows = [[model_cell(c) for c in row] for row in a[4]]
            if mnames != real_names:
                k.append(f"model read: columns model {mnames} code {real_names}")
            elif len(mrows) != len(real[2]):
                k.append(f"model read: model {len(mrows)} rows, code {len(real[2])} rows")
            else:
                for i, (x, y) in enumerate(zip(mrows, real[2])):
                    # pandas' None padding in a text column is cast to str/NaN by the dtype step: representation not compared
                    bad = [j for j in range(len(mnames)) if not mdrop[j] and x[j] != ["none"] and not cells_equal(x[j], y[j])]
                    if bad:
                        k.append(f"model read: cell[{i}][{mnames[bad[0]]}]: model {x[bad[0]]} code {y[bad[0]]}")
                        break

    # ---- Mon: reference reader on the documented meaning of $INPUT / $DATA (conditions in the order written)
    if names_ref is None:
        tags.append("ref-unspecified:bad-synonym")
    else:
        names, drop_ref, alias = names_ref
        if any(f[0] not in alias for f in case["filters"]) or len(set(names)) != len(names):
            tags.append("ref-unspecified:unknown-column")
        else:
            rc = {"kind": "read", "text": case["text"], "ic": case["ic"] or "#", "names": names, "drop": drop_ref,
                  "null": model_null_string(case), "mode": case["mode"] if case["filters"] else 0,
                  "filters": [[alias[f[0]], f[1], f[2], f[3]] for f in case["filters"]], "seed": case["seed"],
                  "mask_drop": True}
            if real[0] == "ok" and real_names != names:
                mon.append({"cls": "model-columns-differ", "what": f"dataset columns {real_names}, $INPUT declares {names}"})
            else:
                judge_with_reference(rc, real, tags, mon, "model-read-differs-from-reference", try_orders=True)
    nontrivial = len(case["filters"]) >= 2 and (real[0] == "ok" or real[1].startswith("DatasetError"))
    return {"k": k, "mon": mon, "tags": tags, "nontrivial": bool(nontrivial)}


# ---------------------------------------------------------------- history run

def frame_of(df):
    """header and cell texts exactly as DataFrame.to_csv(na_rep=token, index=False) renders them"""
    buf = StringIO()
    df.to_csv(buf, na_rep=MISSING, index=False)
    lines = buf.getvalue().split("\n")
    assert lines[-1] == ""
    return [lines[0].split(","), [l.split(",") for l in lines[1:-1]]]


def frames_equal(a, b):
    if list(a.columns) != list(b.columns) or a.shape != b.shape:
        return False
    for c in a.columns:
        for x, y in zip(a[c].tolist(), b[c].tolist()):
            if isinstance(x, str) or isinstance(y, str):
                # a text (DROPped) column: the item texts, or the same number
                if str(x) == str(y):
                    continue
                try:
                    x, y = float(x), float(y)
                except ValueError:
                    return False
            else:
                x, y = float(x), float(y)
            if not ((math.isnan(x) and math.isnan(y)) or x == y):
                return False
    return True


def header_ignore_char(header):
    """an IGNORE character under which the documented comment rules skip a header line: '@' if it starts with a
    letter, '#' or '@' (the @ rule), otherwise its first character"""
    c = header[:1]
    return "@" if c == "" or (c.isascii() and c.isalpha()) or c in "#@" else c


def generated_data_record(path):
    """(file name, IGNORE character or None) of the $DATA record of a written model"""
    rec = NMTranParser().parse(path.read_text()).get_records("DATA")[0]
    return rec.filename, rec.ignore_character, " ".join(str(rec).split())


_DATA_RECS = {}


def real_ignore_from_header(start, label):
    """DataRecord.set_ignore_character_from_header(label).ignore_character on a $DATA record that starts with the
    given IGNORE option"""
    if start not in _DATA_RECS:
        opt = "" if start is None else f" IGNORE={start}"
        _DATA_RECS[start] = NMTranParser().parse(f"$PROBLEM x\n$DATA f.csv{opt}\n$INPUT ID DV\n").get_records("DATA")[0]
    try:
        return ["ok", _DATA_RECS[start].set_ignore_character_from_header(label).ignore_character]
    except IndexError:
        return ["err", "IndexError"]


def run_history_case(case, drv):
    from harness.common.paths import scratch_root
    import shutil
    k, mon, tags = [], [], ["kind:history", f"h-nops={len(case['ops'])}"]
    _CASE_NO[0] += 1
    d = scratch_root() / f"c13h-{os.getpid()}-{_CASE_NO[0]}"
    d.mkdir(parents=True, exist_ok=True)
    try:
        text = ",".join(case["cols"]) + "\n" + "".join(",".join(MISSING if v == "nan" else v for v in r) + "\n" for r in case["rows"])
        (d / "data.dat").write_text(text)
        inp_text = " ".join(k_ if v_ is None else f"{k_}={v_}" for k_, v_ in case["input"]) if "input" in case else " ".join(case["cols"])
        if "input" in case:
            tags.append("h-input:first=" + ("anon-drop" if case["input"][0][1] is None and case["input"][0][0] in ("DROP", "SKIP")
                                            else ("named-drop" if case["input"][0][1] is not None else "plain")))
            tags.append(f"h-input:ndrop={sum(1 for k_, v_ in case['input'] if 'DROP' in (k_, v_) or 'SKIP' in (k_, v_))}")
        # ---- the IGNORE character chosen from a first column label: K (Lean ignoreCharFromHeader) and Mon (the header
        # line that starts with the label must be a comment under it)
        for lab in case.get("labels", []):
            for start in ("@", None, "#"):
                rl = real_ignore_from_header(start, lab)
                if drv is not None:
                    a = drv.ask(["ignchar", lab])
                    if a != rl:
                        k.append(f"set_ignore_character_from_header({lab!r}) on IGNORE={start}: model {a} code {rl}")
                if rl[0] == "ok" and re.fullmatch(r"[A-Za-z_][A-Za-z0-9_]*", lab):
                    tags.append("h-label:" + ("letter" if lab[0].isalpha() else "underscore"))
                    if rl[1] is None or not is_comment(rl[1], lab + ",ID,DV"):
                        mon.append({"cls": "generated-ignore-char-keeps-header-line",
                                    "what": f"set_ignore_character_from_header({lab!r}) on a $DATA with IGNORE={start} gives "
                                            f"IGNORE={rl[1]}: the header line {lab + ',ID,DV'!r} write_csv writes is not skipped"})
                        break
        (d / "run1.mod").write_text(f"$PROBLEM c13\n$INPUT {inp_text}\n$DATA data.dat IGNORE=@\n$PRED\n"
                                    "Y = THETA(1) + ETA(1) + EPS(1)\n$THETA 1\n$OMEGA 1\n$SIGMA 1\n$ESTIMATION METHOD=1\n")
        with warnings.catch_warnings():
            warnings.simplefilter("ignore")
            model = read_model(d / "run1.mod")
            src_rec = generated_data_record(d / "run1.mod")[2]
            src_header = text.split("\n")[0]

            def snapshot(m):
                fs = {p.name: p.read_text() for p in sorted(d.iterdir()) if p.suffix != ".mod"}
                pth = m.datainfo.path
                if pth is not None:
                    pth = pth.name if pth.parent == d else str(pth)
                return fs, [frame_of(m.dataset), [] if pth is None else [pth], m.name]

            synced = True       # the file datainfo.path points at was written by pharmpy for the current dataset (or read from it)
            for step, op in enumerate(case["ops"]):
                before_fs, before_st = snapshot(model)
                df = model.dataset
                status, lean_op = "ok", None
                tags.append("h-op:" + op[0])
                try:
                    if op[0] == "write_csv":
                        tgt = op[1]
                        if tgt == "cur":
                            tgt = model.datainfo.path.name if model.datainfo.path is not None else "A.csv"
                        lean_op = ["write", "dir" if tgt == "dir" else ["file", tgt], "true" if op[2] else "false"]
                        tags.append("h-write:" + ("same-path" if before_st[1] == [tgt] else ("dir" if tgt == "dir" else "other-path"))
                                    + (":force" if op[2] else ""))
                        model = write_csv(model, path=d if tgt == "dir" else d / tgt, force=op[2])
                        synced = True
                    elif op[0] == "write_model":
                        lean_op = ["writemodel", op[1], "true" if op[2] else "false"]
                        model = write_model(model, d / op[1], force=op[2])
                    else:
                        keep = False
                        if op[0] == "set_values":
                            keep, col, how, par = op[1], op[2], op[3], op[4]
                            if col not in df.columns:
                                continue
                            df2 = df.copy()
                            if how == "mul":
                                df2[col] = df2[col] * par
                            elif how == "add":
                                df2[col] = df2[col] + par
                            elif how == "round":
                                df2[col] = (df2[col] * par).round(2)
                            else:
                                df2.loc[df2.index[0], col] = float("nan")
                        elif op[0] == "add_column":
                            if op[1] in df.columns:
                                continue
                            df2 = df.copy()
                            df2[op[1]] = [float(v) for v in (op[2] * 3)[:len(df2)]]
                        elif op[0] == "drop_column":
                            if op[1] not in df.columns:
                                continue
                            df2 = df.drop(columns=[op[1]])
                        else:
                            keep = op[1]
                            mask = (op[2] * 3)[:len(df)]
                            if not any(mask):
                                continue
                            df2 = df[mask].reset_index(drop=True)
                        lean_op = ["setdata", frame_of(df2), "true" if keep else "false"]
                        tags.append("h-change:" + ("datainfo-kept" if keep else "datainfo-derived"))
                        model = model.replace(dataset=df2, datainfo=model.datainfo) if keep else model.replace(dataset=df2)
                        if keep:
                            synced = False
                        if not frames_equal(model.dataset, df2):
                            mon.append({"cls": "replace-dataset-not-set", "what": f"step {step} {op[:2]}: model.dataset is not the frame that was set"})
                except FileExistsError:
                    status = "FileExistsError"
                except Exception as e:
                    mon.append({"cls": "history-op-raises", "what": f"step {step} {op[:3]} raised {type(e).__name__}: {str(e)[:150]}"})
                    break
                tags.append("h-status:" + status)
                after_fs, after_st = snapshot(model)
                # ---- K: the file system and the model's (dataset, datainfo.path, name) after the step
                if drv is not None and lean_op is not None:
                    a = drv.ask(["hstep", [[n_, c_] for n_, c_ in before_fs.items()], before_st, lean_op])
                    m_fs = {p_: c_ for p_, c_ in a[1][0]}
                    m_st = a[1][1]
                    if a[0] != status:
                        k.append(f"step {step} {op[:3]}: model {a[0]} code {status}")
                    elif m_fs != after_fs:
                        diff = sorted(n_ for n_ in set(m_fs) | set(after_fs) if m_fs.get(n_) != after_fs.get(n_))
                        k.append(f"step {step} {op[:3]}: files differ at {diff}: model {[m_fs.get(n_) for n_ in diff]} "
                                 f"code {[after_fs.get(n_) for n_ in diff]}")
                    elif m_st != after_st:
                        k.append(f"step {step} {op[:3]}: model state {m_st} code {after_st}")
                # ---- Mon: what was written is the model's dataset, also through the generated code
                if status == "ok" and op[0] == "write_csv":
                    pth = model.datainfo.path
                    if pth is None or not pth.is_file():
                        mon.append({"cls": "write-csv-no-file", "what": f"step {step}: write_csv returned but datainfo.path {pth} is no file"})
                    else:
                        wtext = pth.read_text()
                        try:
                            back = ds.read_nonmem_dataset(StringIO(wtext), ignore_character=header_ignore_char(wtext.split("\n")[0]),
                                                          colnames=list(model.dataset.columns),
                                                          drop=[bool(ci_.drop) for ci_ in model.datainfo],
                                                          missing_data_token=MISSING)
                        except Exception as e:
                            back = None
                            mon.append({"cls": "written-file-cannot-be-read",
                                        "what": f"step {step} {op}: the file {pth.name} written by write_csv, {wtext!r}, read with "
                                                f"the columns of the dataset raises {type(e).__name__}: {str(e)[:120]}"})
                        if back is not None and not frames_equal(back, model.dataset):
                            mon.append({"cls": "written-file-differs-from-dataset",
                                        "what": f"step {step} {op}: after write_csv the file {pth.name} holds {pth.read_text()!r}, "
                                                f"model.dataset is {frame_of(model.dataset)}"})
                if status == "ok" and op[0] == "write_model":
                    if synced or before_st[1] == []:
                        synced = True
                        try:
                            rb, rb_err = read_model(d / op[1]).dataset, None
                        except Exception as e:
                            rb, rb_err = None, f"{type(e).__name__}: {str(e)[:150]}"
                        data_name, gen_ic, gen_rec = generated_data_record(d / op[1])
                        data_name = Path(data_name).name
                        regenerated = gen_rec != src_rec
                        pth = model.datainfo.path
                        same = rb is not None and frames_equal(rb, model.dataset)
                        dfile = d / data_name
                        header = dfile.read_text().split("\n")[0] if dfile.is_file() else None
                        by_pharmpy = header is not None and header.split(",") == [str(c_) for c_ in model.dataset.columns]
                        if drv is not None and by_pharmpy and regenerated:
                            # K: the IGNORE character of the generated $DATA vs Lean generatedIgnore of the written frame
                            a = drv.ask(["genignore", frame_of(model.dataset)])
                            if a[:2] != ["ok", gen_ic]:
                                k.append(f"step {step} {op[:3]}: generated $DATA has IGNORE={gen_ic}, model {a}")
                        if same:
                            pass
                        elif not op[2] and pth is not None and data_name != pth.name:
                            # unforced write_model leaves the old file name in $DATA although datainfo.path moved
                            mon.append({"cls": "write-model-noforce-keeps-old-data-file",
                                        "what": f"step {step} {op}: write_model(force=False) generated $DATA {data_name} although "
                                                f"datainfo.path is {pth.name}; read back {rb_err or frame_of(rb)}, "
                                                f"model.dataset {frame_of(model.dataset)}"})
                        elif by_pharmpy and not regenerated and header != src_header and not is_comment(gen_ic or "#", header):
                            # write_csv overwrote the file the source model's $DATA names with another header line and
                            # write_model kept the $DATA record of the source model as it was
                            mon.append({"cls": "data-file-overwritten-in-place-keeps-old-data-record",
                                        "what": f"step {step} {op}: $INPUT {inp_text}: write_csv overwrote {data_name} (header {src_header!r} "
                                                f"-> {header!r}) and write_model kept the source record '$DATA {gen_rec[6:]}': the header line is "
                                                f"not skipped; reading back gives {rb_err or frame_of(rb)}"})
                        elif by_pharmpy and not is_comment(gen_ic or "#", header):
                            # the data file was written by pharmpy (header = the dataset's labels) and the generated
                            # IGNORE character does not remove that header line
                            mon.append({"cls": "generated-ignore-char-keeps-header-line",
                                        "what": f"step {step} {op}: $INPUT {inp_text}: write_model generated $DATA {data_name} "
                                                f"IGNORE={gen_ic} but the written file starts with the header line {header!r}, which "
                                                f"that character does not skip; reading back gives {rb_err or frame_of(rb)}, "
                                                f"model.dataset is {frame_of(model.dataset)}"})
                        elif rb is None:
                            mon.append({"cls": "written-dataset-read-back-raises",
                                        "what": f"step {step} {op}: $INPUT {inp_text}: reading the dataset back through {op[1]} raises "
                                                f"{rb_err}; model.dataset is {frame_of(model.dataset)}"})
                        else:
                            mon.append({"cls": "written-dataset-read-back-differs",
                                        "what": f"step {step} {op}: dataset read back through {op[1]} is {frame_of(rb)}, "
                                                f"model.dataset is {frame_of(model.dataset)}; $DATA: "
                                                f"{[l for l in (d / op[1]).read_text().splitlines() if l.startswith('$DATA')]}"})
                        tags.append("h-readback")
                    else:
                        tags.append("h-readback-skipped:dataset-replaced-with-datainfo-kept-and-not-written")
    finally:
        shutil.rmtree(d, ignore_errors=True)
    return {"k": k, "mon": mon, "tags": tags, "nontrivial": len(case["ops"]) >= 3}


def run_roundtrip(case, drv):
    k, mon, tags = [], [], ["kind:roundtrip", f"ncols={len(case['cols'])}"]
    cols = case["cols"]
    data = {c: [float(r[j]) for r in case["rows"]] for j, c in enumerate(cols)}
    df = pd.DataFrame(data)
    buf = StringIO()
    df.to_csv(buf, na_rep=MISSING, index=False)      # write_csv: model.dataset.to_csv(path, na_rep=token, index=False)
    text = buf.getvalue()
    rc = {"kind": "read", "text": text, "ic": "@", "names": cols, "drop": [False] * len(cols), "null": "0", "mode": 0,
          "filters": [], "seed": case["seed"]}
    real = real_read(rc)
    if real[0] != "ok":
        mon.append({"cls": "roundtrip-read-fails", "what": f"reading back {text!r} raises {real[2]}"})
    else:
        want = [[canon_cell(v) for v in row] for row in df.itertuples(index=False, name=None)]
        if len(want) != len(real[2]) or any(not cells_equal(x, y) for a, b in zip(want, real[2]) for x, y in zip(a, b)):
            mon.append({"cls": "roundtrip-differs", "what": f"wrote {want}, read back {real[2]} from {text!r}"})
    if drv is not None:
        m = model_read(rc, drv)
        if m[0] != real[0] or (m[0] == "err" and m[1] != real[1]):
            k.append(f"roundtrip read: model {m[:2]} code {real[:2]}")
        elif m[0] == "ok":
            if m[1] != real[1] or len(m[2]) != len(real[2]) or \
                    any(not cells_equal(x, y) for a, b in zip(m[2], real[2]) for x, y in zip(a, b)):
                k.append(f"roundtrip read: model {m} code {real}")
    return {"k": k, "mon": mon, "tags": tags, "nontrivial": len(case["rows"]) >= 2 and len(cols) >= 2}
