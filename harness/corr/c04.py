"""C04 — Parameter and random-effect edits are written back exactly.

K   : (a) ThetaRecord.update / remove / inits / bounds / fixs of the real code vs the Lean token-level model
          (lean/PharmpyModel/C04/Theta.lean) on generated `$THETA` layouts x parameter edits, token list by
          token list (spelling included); the same comparison for every ThetaRecord.update/remove call that the
          real update_thetas makes during public-API edit sequences (calls are recorded by a wrapper);
          the Lean recogniser of the `theta` grammar rule vs lark on every original and updated record;
      (c) the names OmegaRecord.parse/_get_name attribute to the items of a diagonal record (before and after remove)
          vs the Lean `diagNames`;
      (b) OmegaRecord.parse / update scale conversions (VARIANCE|SD x COVARIANCE|CORRELATION) vs the Lean
          entrywise conversion over exact rationals (12 significant digits).
Mon : the property statement on the real code: parameters(read(code(E(read(L))))) == parameters(E(read(L)))
      (names, inits, bounds, fixedness; random variables: names, levels, block structure, variance parameter
      names), and unchanged values keep their spelling, for layouts L generated from theta_record.lark and
      omega_record.lark and edit sequences E through pharmpy.modeling.
"""
from __future__ import annotations

import math
import os
import random
import re

from harness.corr import c04_util as U

ID = "C04"
DRIVER = "drv_c04"
LEAN_TARGETS = ["PharmpyProofs.C04.Properties", "drv_c04"]
PROPERTIES = ["PharmpyProofs/C04/Properties.lean"]
LEAN_SOURCES = ["PharmpyModel/C04/*.lean", "PharmpyProofs/C04/*.lean", "Drivers/C04.lean"]
TIME_LIMIT = {"quick": 900, "thorough": 3000}
CASE_CPU_LIMIT = 60
RULE = ("three case kinds. theta: one $THETA record derived at random from theta_record.lark (1-5 items; forms init [FIX], "
        "([low,] init [,up] [FIX]) [FIX|xn]; FIX/FIXE/FIXED in every legal position incl. repeated; -INF/INF/+-1000000; "
        "decimal/exponent/sign spellings; missing comma, trailing comma, comments and newlines between and inside items; a "
        "few deliberately unreadable ones) x 1-3 parameter vectors (init/lower/upper/fix edits, uniform and split edits of "
        "xn items) x 1 removal set, through ThetaRecord.update/remove directly. api: a whole control stream with 1-3 $THETA, "
        "1-3 $OMEGA (diagonal with FIX/SD/VAR/(v)xn/DIAGONAL(n), in 30 % of the diagonal records stand-alone comment lines between the "
        "items: name comment on the line below the value, note lines with or without an identifier, indentation; BLOCK(n) with FIX/SD/CORR/VAR/COV and abbreviations, name "
        "comments) and 1-2 $SIGMA records x 1-4 (thorough 1-7) edits from {set_initial_estimates, set_lower_bounds, "
        "set_upper_bounds, fix_parameters, unfix_parameters, add_population_parameter, remove theta, create_joint_distribution, "
        "split_joint_distribution, add_iiv, remove_iiv}. omega: BLOCK(n) scale conversions with exact-square values. "
        "non-trivial = at least one edit changes a parameter / at least two values in a block; distinct = distinct case JSON")
TRUSTED = [
    "Lean 4.33 kernel; axioms propext, Quot.sound, Classical.choice only (audited per theorem each run)",
    "hand-written models PharmpyModel/C04/Theta.lean and Omega.lean, tied to theta_record.py / omega_record.py by the "
    "correspondence run of this invocation",
    "lark: a grammar with %ignore yields tokens whose gaps contain only ignored text; the tree of a re-parsed record has "
    "the kinds the Lean recogniser assigns (checked per case for the `theta` rule)",
    "Python float(): float(str(x)) == x and float(format_number(x)) == x (the model carries spelling and value together)",
    "numpy float arithmetic of the scale conversions (compared at 12 significant digits)",
    "harness/corr/c04.py, c04_util.py (generators, wire format, canonicalisation)",
]
ASSUMPTIONS = [
    "parameters outside what NM-TRAN can express (|bound| >= 1e6, init 0 unless FIX, lower == init unbounded above) are "
    "not generated; the reader's refusal of them is not counted",
    "bounds of $OMEGA/$SIGMA parameters are not part of the comparison (they cannot be written)",
    "omega/sigma initial estimates are compared at 12 significant digits (scale conversions go through float sqrt)",
    "CHOLESKY blocks, BLOCK SAME and BLOCK VALUES are covered by the property monitors only",
]

INF = float("inf")


def budget(tier):
    return int(os.environ.get("VERIF_BUDGET", 0)) or {"quick": 1500, "thorough": 15000}[tier]


# ================================================================== generation

def jnum(v):
    return "inf" if v == INF else "-inf" if v == -INF else v


def unj(v):
    return INF if v == "inf" else -INF if v == "-inf" else float(v)


def gen_param_edit(rng, meta):
    """edits of one parameter described relative to its current value (init, lower, upper, fix)"""
    ed = {}
    r = rng.random()
    init, lower, upper = meta["init"], meta["lower"], meta["upper"]
    if r < 0.45:
        lo = lower if lower > -INF else init - 5
        hi = upper if upper < INF else init + 5
        cand = [init + 0.5, init - 0.25, (lo + hi) / 2, init * 2, 0.1 + 0.2, 1e-5, 12345.678, init + 1]
        v = rng.choice(cand)
        if lo < v < hi and v != 0:
            ed["init"] = v
            init = v
    r = rng.random()
    if r < 0.2:
        ed["lower"] = "-inf"
    elif r < 0.4:
        ed["lower"] = init - rng.choice([0.5, 1.0, 3.0, 0.125, 100.0])
    r = rng.random()
    if r < 0.2:
        ed["upper"] = "inf"
    elif r < 0.4:
        ed["upper"] = init + rng.choice([0.5, 1.0, 3.0, 0.125, 1000.0])
    if rng.random() < 0.3:
        ed["fix"] = not meta["fix"]
    return ed


def gen_theta_case(rng):
    allow_bad = rng.random() < 0.08
    txt, metas = U.gen_theta_record(rng, allow_bad=allow_bad)
    vecs = []
    for _ in range(rng.choice([1, 2, 3])):
        vec = []
        for m in metas:
            uniform = rng.random() < 0.6
            first = gen_param_edit(rng, m) if rng.random() < 0.6 else {}
            for k in range(m["n"]):
                if k == 0 or uniform:
                    vec.append(first)
                else:
                    vec.append(gen_param_edit(rng, m) if rng.random() < 0.7 else {})
        vecs.append(vec)
    k = len(metas)
    rm = sorted(rng.sample(range(k), rng.randint(0, max(0, k - 1)))) if k > 1 else []
    if rng.random() < 0.1:
        rm = rm + [k + 1]
    return {"kind": "theta", "rec": txt, "edits": vecs, "remove": rm, "seed": rng.randrange(1 << 30)}


def gen_omega_case(rng):
    txt, meta = U.gen_block_record(rng, key=rng.choice(["$OMEGA", "$SIGMA"]))
    n = meta["n"]
    # new covariance: new exact sds, same correlations
    new_sds = [rng.choice(U.SDS) for _ in range(n)]
    newcov = []
    for i in range(n):
        for j in range(i + 1):
            newcov.append(round(new_sds[i] ** 2, 12) if i == j else round(meta["corr"][i][j] * new_sds[i] * new_sds[j], 12))
    # fixedness after each successive update: unfix / fix / unfix sequences on the block
    fixseq = [rng.random() < 0.5 for _ in range(rng.choice([1, 2, 3]))]
    if rng.random() < 0.5:
        fixseq = [not meta["fix"], meta["fix"], not meta["fix"]][:rng.choice([1, 2, 3])]
    same_values = rng.random() < 0.3
    return {"kind": "omega", "rec": txt, "size": n, "newcov": newcov, "fixseq": fixseq, "same_values": same_values,
            "seed": rng.randrange(1 << 30)}


def gen_diag_case(rng):
    txt, metas = U.gen_diag_record(rng, key=rng.choice(["$OMEGA", "$OMEGA", "$SIGMA"]))
    vecs = []
    for _ in range(rng.choice([1, 2, 3])):
        vec = []
        for m in metas:
            uniform = rng.random() < 0.5
            first = gen_var_edit(rng) if rng.random() < 0.6 else {}
            for k in range(m["n"]):
                vec.append(first if (k == 0 or uniform) else (gen_var_edit(rng) if rng.random() < 0.7 else {}))
        vecs.append(vec)
    k = len(metas)
    rm = sorted(rng.sample(range(k), rng.randint(0, max(0, k - 1)))) if k > 1 else []
    return {"kind": "diag", "rec": txt, "edits": vecs, "remove": rm, "seed": rng.randrange(1 << 30)}


def gen_var_edit(rng):
    ed = {}
    if rng.random() < 0.6:
        ed["init"] = rng.choice([0.04, 0.09, 0.25, 1.0, 4.0, 0.3, 2.5, 0.0625, 1e-4])
    if rng.random() < 0.35:
        ed["fix"] = rng.random() < 0.5
    return ed


def gen_cases(rng: random.Random, n: int, tier: str):
    out = []
    for _ in range(n):
        r = rng.random()
        if r < 0.5:
            out.append(gen_theta_case(rng))
        elif r < 0.63:
            out.append(gen_omega_case(rng))
        elif r < 0.75:
            out.append(gen_diag_case(rng))
        else:
            from harness.corr import c04_api
            out.append(c04_api.gen_api_case(rng, tier))
    return out


def corpus_cases():
    from harness.corr import c04_api
    return [
        # F12: partial edit of (v)xn is extended to all repeats
        {"kind": "theta", "rec": "$THETA (1)x2\n", "edits": [[{"init": 5.0}, {}]], "remove": [], "seed": 1},
        # F13: unchanged bound respelled
        {"kind": "theta", "rec": "$THETA (0,3,1E2)\n", "edits": [[{"init": 4.0}]], "remove": [], "seed": 2},
        # unchanged item of a multi-item record: bounds respelled although nothing of it changed
        {"kind": "theta", "rec": "$THETA (0,3,1E2) 2\n", "edits": [[{}, {"init": 7.0}]], "remove": [], "seed": 3},
        # FIX appended after xn is not readable
        {"kind": "theta", "rec": "$THETA (1)x2\n", "edits": [[{"fix": True}, {"fix": True}]], "remove": [], "seed": 4},
        # FIX inside parentheses: dropped together with the bound next to it / left in front
        {"kind": "theta", "rec": "$THETA (3 FIX, 3) 2\n", "edits": [[{"lower": "-inf"}, {}]], "remove": [], "seed": 5},
        {"kind": "theta", "rec": "$THETA (FIX 3, 3) 2\n", "edits": [[{"lower": "-inf"}, {}]], "remove": [], "seed": 6},
        {"kind": "theta", "rec": "$THETA (3 FIX) 2\n", "edits": [[{"lower": 1.0}, {}]], "remove": [], "seed": 7},
        {"kind": "theta", "rec": "$THETA (-INF,3,INF) 2 ; x\n", "edits": [[{"init": 2.0}, {}]], "remove": [1], "seed": 8},
        # explicit infinite upper bound + lower bound removed (regression fixed by 6b0a1ad): must be written `7.5`
        {"kind": "theta", "rec": "$THETA (0,7.5,INF) 2\n", "edits": [[{"lower": "-inf"}, {}]], "remove": [], "seed": 15},
        {"kind": "theta", "rec": "$THETA (0,7.5,1000000)x2 FIX\n", "edits": [[{"lower": "-inf"}, {"lower": "-inf"}]], "remove": [], "seed": 16},
        # split-xn path of the diagonal omega update: FIX removed where it agrees, inserted where it differs
        {"kind": "diag", "rec": "$OMEGA (0.1 FIX)x2\n", "edits": [[{}, {"init": 0.25}]], "remove": [], "seed": 9},
        # FIX tied to an init of a BLOCK (not on the header) and the block is unfixed / fixed again
        {"kind": "omega", "rec": "$OMEGA BLOCK(2)\n0.1\n0.01 (0.2 FIX)\n", "size": 2, "newcov": [0.1, 0.01, 0.2], "fixseq": [False, True, False], "same_values": True, "seed": 12},
        {"kind": "omega", "rec": "$SIGMA BLOCK(2) SD\n(FIX 0.1)\n0.001 0.2 ; RUV_X\n", "size": 2, "newcov": [0.04, 0.002, 0.09], "fixseq": [False], "same_values": False, "seed": 13},
        # no-op update of CORR / SD CORR blocks keeps the written numbers (f0abfd5), also (v)xn
        {"kind": "omega", "rec": "$OMEGA BLOCK(2) CORR\n2.25\n-.1 .25\n", "size": 2, "newcov": [2.25, -0.075, 0.25], "fixseq": [False], "same_values": True, "seed": 17},
        {"kind": "omega", "rec": "$SIGMA BLOCK(3) SD CORR\n0.25\n(0.20)x2\n0.2 0.1 1.5\n", "size": 3, "newcov": [1, 0, 1, 0, 0, 1], "fixseq": [False], "same_values": True, "seed": 18},
        # split of a named (v)xn node of a BLOCK: the comment ends up after the last copy
        {"kind": "omega", "rec": "$SIGMA BLOCK(2) CORREL\n0.00250 ; RUV_N59\n(.25)x2 ; RUV_P60\n", "size": 2, "newcov": [0.00375, 0.007654655446197431, 0.25], "fixseq": [False], "same_values": False, "seed": 19},
        {"kind": "omega", "rec": "$OMEGA FIX BLOCK(2) 0.1 0.01 0.2 FIX\n", "size": 2, "newcov": [0.1, 0.01, 0.2], "fixseq": [False], "same_values": True, "seed": 14},
        {"kind": "diag", "rec": "$OMEGA (0.1)x2 0.3\n", "edits": [[{"fix": True}, {}, {}]], "remove": [], "seed": 10},
        {"kind": "diag", "rec": "$OMEGA DIAG(3) 0.1 0.2 SD 0.3 ; c\n", "edits": [[{}, {"init": 0.09}, {}]], "remove": [2], "seed": 11},
        # stand-alone comment lines after a removed item go with it (name comment below the value / note line)
        {"kind": "diag", "rec": "$OMEGA 0.1\n 0.2\n ; IIV_V\n 0.3 ; IIV_KA\n", "edits": [[{}, {}, {}]], "remove": [1], "seed": 20},
        {"kind": "diag", "rec": "$SIGMA 0.1\n0.2 ; RUV_B\n; previous_value 0.4\n0.3 ; RUV_C\n", "edits": [[{}, {}, {}]], "remove": [1], "seed": 21},
    ] + c04_api.corpus_cases()


def shrink(case):
    if case["kind"] == "theta":
        for i in range(len(case["edits"])):
            if len(case["edits"]) > 1:
                c = dict(case)
                c["edits"] = [case["edits"][i]]
                yield c
        if case["remove"]:
            c = dict(case)
            c["remove"] = []
            yield c
        for vi, vec in enumerate(case["edits"]):
            for pi, ed in enumerate(vec):
                for key in list(ed):
                    c = dict(case)
                    c["edits"] = [list(map(dict, v)) for v in case["edits"]]
                    del c["edits"][vi][pi][key]
                    yield c
    elif case["kind"] == "omega":
        if len(case.get("fixseq", [])) > 1:
            for i in range(len(case["fixseq"])):
                c = dict(case)
                c["fixseq"] = case["fixseq"][:i] + case["fixseq"][i + 1:]
                yield c
        if not case.get("same_values"):
            c = dict(case)
            c["same_values"] = True
            yield c
    elif case["kind"] == "diag":
        for i in range(len(case["edits"])):
            if len(case["edits"]) > 1:
                c = dict(case)
                c["edits"] = [case["edits"][i]]
                yield c
        if case["remove"]:
            c = dict(case)
            c["remove"] = []
            yield c
    elif case["kind"] == "api":
        from harness.corr import c04_api
        yield from c04_api.shrink(case)


# ================================================================== real-code side

def worker_init():
    global create_record, ThetaRecord, OmegaRecord, Parameter, ModelSyntaxError, NoSuchRuleException, lark_errors
    global _fix_same
    import warnings
    warnings.filterwarnings("ignore")
    from pharmpy.model import ModelSyntaxError, Parameter  # noqa
    from pharmpy.model.external.nonmem.records.factory import create_record  # noqa
    from pharmpy.model.external.nonmem.records.theta_record import ThetaRecord  # noqa
    from pharmpy.model.external.nonmem.records.omega_record import OmegaRecord  # noqa
    from pharmpy.model.external.nonmem.parsing import _fix_thetas_with_same_bounds as _fix_same  # noqa
    from pharmpy.internals.parse.generic import NoSuchRuleException  # noqa
    import lark.exceptions as lark_errors  # noqa
    from harness.corr import c04_api
    c04_api.worker_init()


def try_record(text):
    """create_record, or the class of the refusal"""
    try:
        rec = create_record(text)
    except lark_errors.LarkError as e:
        return None, "lark:" + type(e).__name__
    if not isinstance(rec, ThetaRecord):
        return None, "not-a-theta-record"
    return rec, None


def py_parse(rec):
    """inits/bounds/fixs + parsing.py's autofix + Parameter.create: [(init, lower, upper, fix)] or ('err', class)"""
    try:
        bounds = rec.bounds
        inits = rec.inits
        fixs = rec.fixs
    except ModelSyntaxError:
        return ("err", "ModelSyntaxError")
    except NoSuchRuleException:
        return ("err", "NoSuchRule")
    fixs = _fix_same(bounds, inits, fixs)
    out = []
    for b, i, f in zip(bounds, inits, fixs):
        try:
            p = Parameter.create("X", init=i, lower=b[0], upper=b[1], fix=f)
        except ValueError:
            return ("err", "ValueError")
        out.append((p.init, p.lower, p.upper, p.fix))
    return out


def parsed_wire(ps):
    return U.norm([[U.val_wire(i), U.val_wire(lo), U.val_wire(up), bool(f)] for i, lo, up, f in ps])


def in_nonmem_domain(p):
    init, lower, upper, fix = p
    if math.isinf(init) or abs(init) >= 1e6:
        return False
    if lower != -INF and abs(lower) >= 1e6:
        return False
    if upper != INF and abs(upper) >= 1e6:
        return False
    if not (lower <= init <= upper):
        return False
    if not fix and init == 0:
        return False
    if not fix and upper == INF and lower == init:
        return False
    if not fix and lower == upper == init:
        return False
    return True


def item_nodes(rec):
    return [ch for ch in rec.root.children if str(getattr(ch, "rule", "")) == "theta"]


def item_facts(node):
    """decidable facts about one theta subtree, used to name witness classes"""
    kinds = [str(c.rule) for c in node.children]
    n = 1
    for c in node.children:
        if str(c.rule) == "n":
            n = int([t for t in c.children if str(t.rule) == "INT"][0].value)
    inp = False
    fix_inside = False
    for k in kinds:
        if k == "LPAR":
            inp = True
        elif k == "RPAR":
            inp = False
        elif k == "FIX" and inp:
            fix_inside = True
    ess = [k for k in kinds if k not in ("WS", "COMMENT", "NEWLINE", "CONT")]
    trailing_comma = any(a == "COMMA" and b == "RPAR" for a, b in zip(ess, ess[1:]))
    texts = {str(c.rule): str(c) for c in node.children if str(c.rule) in ("low", "init", "up")}
    rpar_adjacent = "RPAR" in kinds and kinds.index("RPAR") + 1 < len(kinds) and kinds[kinds.index("RPAR") + 1] in ("FIX", "n")
    return dict(n=n, fix_inside=fix_inside, trailing_comma=trailing_comma, fix="FIX" in kinds, rpar_adjacent=rpar_adjacent,
                low=texts.get("low"), init=texts.get("init"), up=texts.get("up"), text=str(node),
                inner_comment="COMMENT" in kinds)


def apply_edits(old, vec):
    """old: [(init, lower, upper, fix)], vec: edit dicts -> new list, or None when Parameter.create refuses"""
    new = []
    for (init, lower, upper, fix), ed in zip(old, vec):
        init = unj(ed["init"]) if "init" in ed else init
        lower = unj(ed["lower"]) if "lower" in ed else lower
        upper = unj(ed["upper"]) if "upper" in ed else upper
        fix = ed["fix"] if "fix" in ed else fix
        try:
            p = Parameter.create("X", init=init, lower=lower, upper=upper, fix=fix)
        except ValueError:
            return None
        new.append((p.init, p.lower, p.upper, p.fix))
    return new


class P:
    """what ThetaRecord.update reads of a Parameter"""
    def __init__(self, t):
        self.init, self.lower, self.upper, self.fix = t


def f15_adjacent(node):
    """(low,init) item whose RPAR is immediately followed by FIX or xn: lark's lexer reads `)FIX` / `)x2` as one VALUE
    token there (grammar defect F15 of C01) and refuses the record"""
    kinds = [str(c.rule) for c in node.children]
    if "low" not in kinds or "up" in kinds or "RPAR" not in kinds:
        return False
    i = kinds.index("RPAR")
    before = [k for k in kinds[:i] if k not in ("WS", "COMMENT", "NEWLINE", "CONT")]
    # the lexer is in the state that accepts VALUE only right after the init number
    return i + 1 < len(kinds) and kinds[i + 1] in ("FIX", "n") and bool(before) and before[-1] == "init"


def classify_update(facts, old_ps, new_ps):
    """witness class of a failing item (first matching decidable description), or None"""
    n = facts["n"]
    if n > 1 and any(p != new_ps[0] for p in new_ps):
        return "theta-repeat-partial-edit"
    if n > 1 and new_ps[0][3] != facts["fix"] and new_ps[0][3]:
        return "theta-repeat-fix-added"
    changed_bounds = (old_ps[0][1], old_ps[0][2]) != (new_ps[0][1], new_ps[0][2])
    if facts["fix_inside"] and old_ps[0] != new_ps[0]:
        return "theta-fix-inside-parens-edit"
    if facts["inner_comment"]:
        return "theta-inner-comment-edit"
    if facts["trailing_comma"]:
        return "theta-trailing-comma-edit"
    if facts["rpar_adjacent"] and new_ps[0][1] > -1e6 and new_ps[0][2] == INF:
        return "theta-low-init-rpar-adjacent"
    return None


def run_theta_case(case, drv):
    k, mon, tags = [], [], ["kind:theta"]
    rec, refusal = try_record(case["rec"])
    if rec is None:
        tags.append("layout-refused:" + refusal)
        return {"k": k, "mon": mon, "tags": tags, "nontrivial": False}
    w = U.rec_wire(rec.root)
    wn = U.norm(w)
    facts = [item_facts(nd) for nd in item_nodes(rec)]
    for f in facts:
        tags.append(f"items={len(facts)}")
        break
    for f in facts:
        if f["n"] > 1:
            tags.append("layout:xn")
        if f["fix_inside"]:
            tags.append("layout:fix-inside")
        if f["trailing_comma"]:
            tags.append("layout:trailing-comma")
        if f["inner_comment"]:
            tags.append("layout:inner-comment")
    # ---- K: grammar recogniser on a tree lark produced, parse
    old = py_parse(rec)
    if drv is not None:
        g = drv.ask(["grammar", w])
        # form 4 `(low,,up)`: a theta subtree without init (the recogniser refuses it); decided from the tree, the reader may
        # raise for another item first
        form4 = any(nd.find("init") is None for nd in item_nodes(rec))
        if g != ("false" if form4 else "true"):
            k.append(f"grammar recogniser: model {g} on a record lark parsed (form4={form4}): {case['rec']!r}")
        m = drv.ask(["parse", w])
        if isinstance(old, tuple):
            if m[0] != "err":
                k.append(f"parse: model {m} code {old}")
        elif m != ["ok", parsed_wire(old)]:
            k.append(f"parse: model {m} code {old}")
        m = drv.ask(["len", w])
        if str(len(rec)) != m:
            k.append(f"len: model {m} code {len(rec)}")
    if isinstance(old, tuple):
        tags.append("read-refused:" + old[1])
        return {"k": k, "mon": mon, "tags": tags, "nontrivial": False}
    nontrivial = False
    # ---- update
    for vec in case["edits"]:
        new = apply_edits(old, vec)
        if new is None:
            tags.append("edit-refused-by-Parameter.create")
            continue
        tags.append("op:update")
        if new != old:
            nontrivial = True
        try:
            upd = rec.update([P(t) for t in new])
            code = U.norm(U.rec_wire(upd.root))
            err = None
        except IndexError:
            code, err = None, "IndexError"
        if drv is not None:
            m = drv.ask(["update", w, [U.param_wire(*t) for t in new]])
            if err is not None:
                if m != ["err", err]:
                    k.append(f"update: model {m} code raises {err}")
            elif m != ["ok", code]:
                k.append(f"update {case['rec']!r} {new}: model {_show(m)} code {_show(code)}")
        if err is not None:
            mon.append({"cls": "theta-update-internal-error", "what": f"ThetaRecord.update raised {err} for {case['rec']!r}"})
            continue
        n_before = len(mon)
        readback = _monitor_update(case, rec, facts, old, new, upd, drv, k, mon, tags)
        if drv is not None:
            # the decidable side-conditions of theta_update_reads_back_decidable, evaluated by the Lean driver
            shape, pok, norep, model_ok = drv.ask(["sidecond", w, [U.param_wire(*t) for t in new]])
            if (pok == "true") != all(in_nonmem_domain(t) for t in new):
                k.append(f"ParamOK: model {pok}, harness domain check {not (pok == 'true')} for {new}")
            inside = shape == pok == norep == "true"
            tags.append("sidecond:" + ("inside" if inside else "outside:" + "".join(c for c, v in zip("SPR", (shape, pok, norep)) if v != "true")))
            if inside and model_ok != "true":
                k.append(f"the statement of theta_update_reads_back_decidable fails on the model for {case['rec']!r} {new}")
            if inside and readback is False:
                k.append(f"inside the side-conditions of theta_update_reads_back_decidable the real code does not read back: {case['rec']!r} -> {new}")
            if inside:
                for mm in mon[n_before:]:
                    if mm["cls"] in ("theta-repeat-partial-edit", "theta-fix-inside-parens-edit"):
                        k.append(f"class {mm['cls']} reported inside the side-conditions it negates: {case['rec']!r} {new}")
    # ---- remove
    inds = case["remove"]
    tags.append("op:remove" if inds else "op:remove-none")
    rem = rec.remove(inds)
    if drv is not None:
        m = drv.ask(["remove", w, inds])
        if m != U.norm(U.rec_wire(rem.root)):
            k.append(f"remove {inds}: model {_show(m)} code {_show(U.norm(U.rec_wire(rem.root)))}")
    if inds and len(set(inds) & set(range(len(facts)))) < len(facts):
        nontrivial = True
        rr, refusal = try_record(str(rem.root) if str(rem.root).lstrip().startswith("$") else "$THETA" + str(rem.root))
        if rr is None:
            mon.append({"cls": "theta-remove-unreadable", "what": f"remove({inds}) of {case['rec']!r} gives {str(rem.root)!r}: {refusal}"})
        else:
            got = py_parse(rr)
            want = []
            pos = 0
            for i, f in enumerate(facts):
                if i not in inds:
                    want += old[pos:pos + f["n"]]
                pos += f["n"]
            if got != want:
                mon.append({"cls": "theta-remove-readback", "what": f"remove({inds}) of {case['rec']!r} reads back {got}, expected {want}"})
    return {"k": k, "mon": mon, "tags": tags, "nontrivial": nontrivial}


def _show(x):
    return str(x)[:700]


def _monitor_update(case, rec, facts, old, new, upd, drv, k, mon, tags):
    text = "$THETA" + str(upd.root)
    rr, refusal = try_record(text)
    uw = U.rec_wire(upd.root)
    if drv is not None:
        g = drv.ask(["grammar", uw])
        # the recogniser must say exactly whether lark reads the updated record back with the same tree kinds
        same_tree = rr is not None and _kinds(rr.root) == _kinds(upd.root)
        quirk = any(f15_adjacent(nd) for nd in item_nodes(upd))
        if quirk:
            tags.append("lexer-quirk-F15")
        if ((g == "true") and not quirk) != same_tree:
            k.append(f"grammar recogniser on updated record {text!r}: model {g}, lark re-read {'same kinds' if same_tree else refusal or 'different tree'}")
    domain = all(in_nonmem_domain(p) for p in new)
    if not domain:
        tags.append("param-outside-nm-domain")
    # per item: which class would a failure belong to
    pos = 0
    item_cls = []
    for f in facts:
        item_cls.append(classify_update(f, old[pos:pos + f["n"]], new[pos:pos + f["n"]]))
        pos += f["n"]
    readback = None   # True/False when the written record could be re-read and the parameters were in the domain
    if rr is None:
        if domain:
            cls = next((c for c in item_cls if c), None)
            if cls is None and any(f15_adjacent(nd) for nd in item_nodes(upd)):
                cls = "theta-low-init-rpar-adjacent"
            cls = cls or "theta-update-unreadable"
            mon.append({"cls": cls, "what": f"update of {case['rec']!r} to {new} writes {text!r}, which cannot be read: {refusal}"})
        return None
    got = py_parse(rr)
    if domain:
        readback = got == new
    if domain and got != new:
        # locate the first differing item
        cls = None
        if not isinstance(got, tuple) and len(got) == len(new):
            pos = 0
            for f, c in zip(facts, item_cls):
                if got[pos:pos + f["n"]] != new[pos:pos + f["n"]]:
                    # a defective neighbour can change how this item is read (a stray FIX attaches to the previous theta)
                    cls = c or next((c2 for c2 in item_cls if c2), "theta-update-readback")
                    break
                pos += f["n"]
        else:
            cls = next((c for c in item_cls if c), "theta-update-readback")
        mon.append({"cls": cls, "what": f"update of {case['rec']!r} to {new} writes {text!r}, read back as {got}"})
    # spelling: unchanged values keep their spelling
    new_nodes = item_nodes(upd)
    if len(new_nodes) == len(facts):
        pos = 0
        for f, nd in zip(facts, new_nodes):
            o, nw = old[pos:pos + f["n"]], new[pos:pos + f["n"]]
            pos += f["n"]
            g = item_facts(nd)
            if o == nw:
                tags.append("item-unchanged")
                # the property speaks of the spelling of values: compare the number tokens (an added FIX keyword for an
                # auto-fixed (v,v,v) item or re-arranged parentheses are not a respelling; recorded in the distribution)
                gl = f["low"] if (g["low"] is None and o[0][1] == -INF) else g["low"]
                gu = f["up"] if (g["up"] is None and o[0][2] == INF) else g["up"]
                if (gl, gu) != (g["low"], g["up"]):
                    tags.append("explicit-infinite-bound-dropped")
                if (g["init"], gl, gu) != (f["init"], f["low"], f["up"]):
                    cls = "theta-unchanged-bound-respelled" if g["init"] == f["init"] else "theta-frame"
                    if f["inner_comment"] and not g["inner_comment"]:
                        cls = "theta-inner-comment-edit"
                    mon.append({"cls": cls, "what": f"item {f['text']!r} of {case['rec']!r} became {g['text']!r} although its parameter did not change"})
                elif g["text"] != f["text"]:
                    tags.append("item-unchanged-retokenised")
            elif f["n"] == 1:
                tags.append("item-changed")
                if o[0][0] == nw[0][0] and g["init"] != f["init"]:
                    mon.append({"cls": "theta-unchanged-init-respelled", "what": f"{f['text']!r} -> {g['text']!r}: init unchanged"})
                if o[0][1] == nw[0][1] and f["low"] is not None and g["low"] != f["low"] and not (g["low"] is None and o[0][1] == -INF):
                    mon.append({"cls": "theta-unchanged-bound-respelled", "what": f"{f['text']!r} -> {g['text']!r}: lower bound {o[0][1]} unchanged"})
                if o[0][2] == nw[0][2] and f["up"] is not None and g["up"] != f["up"] and not (g["up"] is None and o[0][2] == INF):
                    mon.append({"cls": "theta-unchanged-bound-respelled", "what": f"{f['text']!r} -> {g['text']!r}: upper bound {o[0][2]} unchanged"})
    return readback


def _kinds(root):
    out = []
    for ch in root.children:
        if str(getattr(ch, "rule", "")) == "theta":
            ks = []
            for c in ch.children:
                r = str(c.rule)
                if r in ("WS", "COMMENT", "NEWLINE", "CONT"):
                    continue
                ks.append(r)
            out.append(ks)
    return out


# ------------------------------------------------------------------ omega scale conversions

def sig(x, n=12):
    if x == 0 or math.isinf(x):
        return x
    return float(f"{x:.{n - 1}e}")


def block_named_xn(rec):
    """does a (v)xn node of the BLOCK record carry a name comment (the first COMMENT/NEWLINE after it, before the next node)?"""
    children = list(rec.root.children)
    for i, ch in enumerate(children):
        if str(getattr(ch, "rule", "")) == "omega" and ch.find("n"):
            for nxt in children[i + 1:]:
                r = str(getattr(nxt, "rule", ""))
                if r == "omega":
                    break
                if r in ("COMMENT", "NEWLINE"):
                    if re.search(r";\s*([a-zA-Z_]\w*)", str(nxt)):
                        return True
                    break
    return False


def run_omega_case(case, drv):
    from fractions import Fraction
    k, mon, tags = [], [], ["kind:omega"]
    try:
        rec = create_record(case["rec"])
    except lark_errors.LarkError as e:
        tags.append("layout-refused:" + type(e).__name__)
        return {"k": k, "mon": mon, "tags": tags, "nontrivial": False}
    try:
        fix, sd, corr, chol = rec._block_flags()
        (names, inits, fixed, same), = rec.parse()
    except ModelSyntaxError:
        tags.append("read-refused")
        return {"k": k, "mon": mon, "tags": tags, "nontrivial": False}
    tags += [f"sd={sd}", f"corr={corr}", f"size={case['size']}"]
    raw = []
    for node in rec.root.subtrees("omega"):
        raw.append(float(str(node.subtree("init"))))
    fr = lambda v: [Fraction(str(v)).numerator, Fraction(str(v)).denominator]
    if drv is not None and not chol:
        m = drv.ask(["tocov", sd, corr, case["size"], [fr(v) for v in raw]])
        if m[0] != "ok":
            tags.append("tocov-irrational")
        else:
            mv = [int(a) / int(b) for a, b in m[1]]
            if [sig(v) for v in mv] != [sig(float(v)) for v in inits]:
                k.append(f"OmegaRecord.parse {case['rec']!r}: model {mv} code {list(map(float, inits))}")
    # successive updates: new covariance matrix (or the old one), fixedness from `fixseq`
    key = case["rec"].split()[0]
    cur = rec
    cov_old = [float(v) for v in inits]
    for step, newfix in enumerate(case.get("fixseq", [fixed])):
        cov_prev = cov_old
        newcov = cov_old if (case.get("same_values") or step > 0) else case["newcov"]
        cov_old = newcov
        tags.append("op:block-" + ("fix" if newfix else "unfix"))
        try:
            upd = cur.update([P((v, 0.0, INF, newfix)) for v in newcov])
        except Exception as e:  # numpy LinAlgError etc.: not part of this comparison
            tags.append("update-raises-" + type(e).__name__)
            break
        raw2 = []
        for node in upd.root.subtrees("omega"):
            nrep = int(str(node.subtree("n").leaf("INT"))) if node.find("n") else 1
            raw2 += [float(str(node.subtree("init")))] * nrep
        if drv is not None and not chol:
            if step == 0:
                m = drv.ask(["fromcov", sd, corr, case["size"], [fr(v) for v in newcov]])
                if m[0] == "ok":
                    mv = [int(a) / int(b) for a, b in m[1]]
                    if [sig(v) for v in mv] != [sig(v) for v in raw2]:
                        k.append(f"OmegaRecord.update {case['rec']!r} -> {newcov}: model {mv} code {raw2}")
            # token level: values spelled as the code spells them, FIX handling, xn split
            ws, news, olds = U.block_update_args(cur, newcov, case["size"], sd, corr, newfix)
            m = drv.ask(["bupdate", U.brec_wire(cur.root), ws, news, olds, bool(newfix)])
            want = ["ok", U.norm(U.brec_wire(upd.root))]
            if m != want:
                k.append(f"OmegaRecord.update(BLOCK) {key + str(cur.root)!r} -> {newcov} fix={newfix}: model {_show(m)} code {_show(want)}")
        # monitor: values that did not change keep the number written in the record (any scale)
        if newcov is cov_prev:
            before = [str(nd.subtree("init")) + (str(nd.subtree("n")) if nd.find("n") else "") for nd in cur.root.subtrees("omega")]
            after = [str(nd.subtree("init")) + (str(nd.subtree("n")) if nd.find("n") else "") for nd in upd.root.subtrees("omega")]
            if before != after:
                # step 0: the parameters are exactly what the record reads as (a true no-op, must hold since f0abfd5);
                # later steps: the record was written from these parameters before, its tokens read back an ulp away
                cls = "omega-block-noop-respelled" if step == 0 else "omega-block-second-write-respelled"
                mon.append({"cls": cls, "what": f"{key + str(cur.root)!r} updated with {'its own' if step == 0 else 'the same in-memory'} values writes {key + str(upd.root)!r}"})
        # monitor: read-back of the written block (values and fixedness)
        text = key + str(upd.root)
        try:
            rr = create_record(text)
            (_, inits2, fixed2, _), = rr.parse()
            if [sig(float(v)) for v in inits2] != [sig(v) for v in newcov]:
                mon.append({"cls": "omega-block-update-readback", "what": f"{key + str(cur.root)!r} updated to {newcov} writes {text!r}, read back {list(map(float, inits2))}"})
            names_before = cur.parse()[0][0]
            names_after = rr.parse()[0][0]
            if names_before != names_after:
                split = len(list(upd.root.subtrees("omega"))) > len(list(cur.root.subtrees("omega")))
                cls = "omega-block-repeat-split-comment" if split and block_named_xn(cur) else "omega-block-name-readback"
                mon.append({"cls": cls, "what": f"{key + str(cur.root)!r} updated to {newcov} writes {text!r}: names {names_before} read back as {names_after}"})
            if bool(fixed2) != bool(newfix):
                mon.append({"cls": "omega-block-fix-readback", "what": f"{key + str(cur.root)!r} updated to fix={newfix} writes {text!r}, read back fix={fixed2}"})
            if drv is not None:
                m = drv.ask(["bfix", U.brec_wire(rr.root)])
                if m != ("true" if fixed2 else "false"):
                    k.append(f"_block_flags of {text!r}: model {m} code {fixed2}")
        except (lark_errors.LarkError, ModelSyntaxError) as e:
            mon.append({"cls": "omega-block-update-unreadable", "what": f"{key + str(cur.root)!r} updated to {newcov} fix={newfix} writes {text!r}: {type(e).__name__}"})
            break
        cur = upd
    return {"k": k, "mon": mon, "tags": tags, "nontrivial": True}


# ------------------------------------------------------------------ diagonal omega/sigma records

class OP:
    def __init__(self, init, fix):
        self.init, self.fix = init, fix


def diag_items(rec):
    return list(rec.root.subtrees("diag_item"))


def diag_oparams(rec, ps):
    """the values OmegaRecord.update computes for each parameter: init, or init ** 0.5 for an SD item"""
    out = []
    pos = 0
    for node in diag_items(rec):
        n = int(str(node.subtree("n").leaf("INT"))) if node.find("n") else 1
        sd = bool(node.find("SD"))
        for init, fix in ps[pos:pos + n]:
            out.append(U.oparam_wire(init ** 0.5 if sd else init, fix))
        pos += n
    out += [U.oparam_wire(init, fix) for init, fix in ps[pos:]]
    return out


def diag_item_names(rec):
    """the name comment OmegaRecord.parse attributes to each diag_item (None without one), one entry per item"""
    blocks = rec.parse()
    out, pos = [], 0
    for nd in diag_items(rec):
        n = int(str(nd.subtree("n").leaf("INT"))) if nd.find("n") else 1
        out.append(blocks[pos][0][0])
        pos += n
    return out


def k_diag_names(rec, drv, k, label):
    """K: the names read from the in-memory tree (OmegaRecord._get_name through parse) vs the Lean `diagNames`"""
    try:
        names = diag_item_names(rec)
    except ModelSyntaxError:
        return None
    m = drv.ask(["dnames", U.drec_wire(rec.root)])
    want = [["some", nm] if nm is not None else "none" for nm in names]
    if m != want:
        k.append(f"{label}names of {str(rec.root)!r}: model {_show(m)} code {names}")
    return names


def monitor_diag_remove_names(key, rec, inds, rem, mon):
    """the kept items of a diagonal record are re-read under the names they had before the removal (names carried by
    name comments; None = no name comment = the default name of the position)"""
    try:
        before = diag_item_names(rec)
        after = diag_item_names(create_record(key + str(rem.root)))
    except (ModelSyntaxError, lark_errors.LarkError):
        return False
    want = [nm for i, nm in enumerate(before) if i not in inds]
    if after != want:
        mon.append({"cls": "omega-diag-remove-name-readback",
                    "what": f"remove({sorted(inds)}) of {key + str(rec.root)!r} writes {key + str(rem.root)!r}: the kept items were named "
                            f"{want}, they are read back as {after}"})
        return True
    return False


def py_dparse(rec):
    try:
        blocks = rec.parse()
    except ModelSyntaxError:
        return ("err", "ModelSyntaxError")
    return [(float(inits[0]), bool(fix)) for names, inits, fix, same in blocks]


def k_diag_update(rec, ps, res, drv, k, label):
    """ps: [(init, fix)], res: updated record or exception"""
    m = drv.ask(["dupdate", U.drec_wire(rec.root), diag_oparams(rec, ps)])
    if isinstance(res, Exception):
        want = ["err", type(res).__name__]
    else:
        want = ["ok", U.norm(U.drec_wire(res.root))]
    if m != want:
        k.append(f"{label}OmegaRecord.update({str(rec.root)!r}, {ps}): model {_show(m)} code {_show(want)}")


def run_diag_case(case, drv):
    k, mon, tags = [], [], ["kind:diag"]
    try:
        rec = create_record(case["rec"])
    except lark_errors.LarkError as e:
        tags.append("layout-refused:" + type(e).__name__)
        return {"k": k, "mon": mon, "tags": tags, "nontrivial": False}
    key = case["rec"].split()[0]
    old = py_dparse(rec)
    items = diag_items(rec)
    ns = [int(str(nd.subtree("n").leaf("INT"))) if nd.find("n") else 1 for nd in items]
    if any(n > 1 for n in ns):
        tags.append("layout:diag-xn")
    if drv is not None:
        w = U.drec_wire(rec.root)
        m = drv.ask(["dparse", w])
        if isinstance(old, tuple):
            if m[0] != "err":
                k.append(f"diag parse: model {m} code {old}")
        else:
            # the model reports the raw value and the SD flag; the code squares SD values
            got = [(float(int(v[0][0]) / int(v[0][1])) ** (2 if v[1] == "true" else 1), v[2] == "true") for v in m[1]] if m[0] == "ok" else m
            if m[0] != "ok" or [(sig(a), b) for a, b in got] != [(sig(a), b) for a, b in old]:
                k.append(f"diag parse {case['rec']!r}: model {m} code {old}")
        m = drv.ask(["dlen", w])
        if m != str(len(rec)):
            k.append(f"diag len: model {m} code {len(rec)}")
        if not isinstance(old, tuple):
            k_diag_names(rec, drv, k, "")
    if re.search(r"\n[ \t]*;", case["rec"]):
        tags.append("layout:diag-comment-line")
    if isinstance(old, tuple):
        tags.append("read-refused:" + old[1])
        return {"k": k, "mon": mon, "tags": tags, "nontrivial": False}
    nontrivial = False
    for vec in case["edits"]:
        new = []
        for (init, fix), ed in zip(old, vec):
            init = ed.get("init", init)
            fix = ed.get("fix", fix)
            new.append((float(init), bool(fix)))
        if any(i == 0 and not f for i, f in new):
            tags.append("edit-outside-domain")
            continue
        tags.append("op:dupdate")
        nontrivial = nontrivial or new != old
        try:
            upd = rec.update([OP(i, f) for i, f in new])
        except IndexError as e:
            upd = e
        if drv is not None:
            k_diag_update(rec, new, upd, drv, k, "")
        if isinstance(upd, Exception):
            mon.append({"cls": "omega-diag-update-internal-error", "what": f"OmegaRecord.update raised {type(upd).__name__} on {case['rec']!r}"})
            continue
        text = key + str(upd.root)
        # which witness class would a failure belong to
        pos = 0
        split = False
        for n in ns:
            if n > 1 and any(p != new[pos] for p in new[pos:pos + n]):
                split = True
            pos += n
        try:
            got = py_dparse(create_record(text))
        except lark_errors.LarkError as e:
            got = ("err", type(e).__name__)
        want = [(sig(i), f) for i, f in new]
        if isinstance(got, tuple) or [(sig(i), f) for i, f in got] != want:
            cls = "omega-diag-repeat-split-fix" if split else "omega-diag-update-readback"
            mon.append({"cls": cls, "what": f"update of {case['rec']!r} to {new} writes {text!r}, read back {got}"})
    inds = case["remove"]
    if inds:
        tags.append("op:dremove")
        rem = rec.remove([(i, 0) for i in inds])
        if drv is not None:
            m = drv.ask(["dremove", U.drec_wire(rec.root), inds])
            if m != U.norm(U.drec_wire(rem.root)):
                k.append(f"OmegaRecord.remove {inds} on {case['rec']!r}: model {_show(m)} code {_show(U.norm(U.drec_wire(rem.root)))}")
            k_diag_names(rem, drv, k, f"after remove({inds}): ")
        if monitor_diag_remove_names(key, rec, set(inds), rem, mon):
            tags.append("mon:diag-remove-names-differ")
        text = key + str(rem.root)
        want = []
        pos = 0
        for i, n in enumerate(ns):
            if i not in inds:
                want += old[pos:pos + n]
            pos += n
        try:
            got = py_dparse(create_record(text))
        except lark_errors.LarkError as e:
            got = ("err", type(e).__name__)
        if got != want:
            mon.append({"cls": "omega-diag-remove-readback", "what": f"remove({inds}) of {case['rec']!r} writes {text!r}, read back {got}, expected {want}"})
        elif case["rec"].endswith("\n") and not text.endswith("\n"):
            mon.append({"cls": "omega-diag-remove-last-item", "what": f"remove({inds}) of {case['rec']!r} writes {text!r}: the record's final newline is gone"})
        nontrivial = True
    return {"k": k, "mon": mon, "tags": tags, "nontrivial": nontrivial}


def run_case(case, drv):
    if case["kind"] == "theta":
        return run_theta_case(case, drv)
    if case["kind"] == "diag":
        return run_diag_case(case, drv)
    if case["kind"] == "omega":
        return run_omega_case(case, drv)
    from harness.corr import c04_api
    return c04_api.run_api_case(case, drv)
