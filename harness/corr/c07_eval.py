"""C07 — numeric evaluators of pharmpy.modeling.evaluation vs direct evaluation of the model function.

Every evaluator (evaluate_expression, evaluate_population_prediction, evaluate_individual_prediction,
evaluate_eta_gradient, evaluate_epsilon_gradient, evaluate_weighted_residuals) is called with generated
argument forms — `parameters` None / keyed by str / sympy.Symbol / pharmpy Expr symbol / a pd.Series / mixed,
full or partial, values different from the initial estimates; etas given or defaulted; dataset given or
defaulted — and compared with the independent statement-by-statement exact evaluation of c07_util.evaluate
(central finite differences of it for the gradients) at sampled records.

K  : the Lean model (`evaluatePred`, `evaluateExpression`, `directMapping` / `mergedMapping`) answers with
     the expression the evaluator evaluates; its exact value at the sampled records is compared with the
     code's output.  Key-form invariance (`evaluator_key_form_invariant`) is the obligation: the result
     depends on the mapping only through its value at each parameter name.
Mon: code vs direct evaluation.  Class = evaluator + argument form, so a failure for one form cannot hide
     behind a known finding for another.
"""
from __future__ import annotations

import random
from decimal import Decimal

import numpy as np
import pandas as pd
import sympy

from harness.common import exprconv
from harness.corr import c07_util as U

FORMS = ["none", "str", "sympy", "expr", "series", "mixed"]
RTOL = 1e-9


def _rat(x):
    return sympy.Rational(str(Decimal(repr(float(x)))))


def _new_value(rng, init):
    """A short decimal different from the initial estimate (same sign, positive for variances)."""
    f = rng.choice([0.4, 0.7, 1.6, 2.3, 3.1])
    v = float(init) * f if float(init) != 0 else rng.choice([0.2, 0.5])
    v = float(f"{v:.4g}")
    if v == float(init):
        v = float(f"{v * 1.5 + 0.1:.4g}")
    return v


def make_parameters(pm_Expr, model, rng, form, partial):
    """(argument to pass, name -> value actually denoted, wire entries for the Lean driver)."""
    if form == "none":
        return None, {}, "none"
    names = list(model.parameters.names)
    if partial and len(names) > 1:
        names = sorted(rng.sample(names, rng.randint(1, len(names) - 1)), key=list(model.parameters.names).index)
    vals = {n: _new_value(rng, model.parameters[n].init) for n in names}
    entries = []
    arg = {}
    for i, n in enumerate(names):
        f = form if form != "mixed" else ["str", "sympy", "expr"][(i + rng.randrange(3)) % 3]
        if f in ("str", "series"):
            arg[n] = vals[n]
            entries.append(["str", n, exprconv.to_sexp(_rat(vals[n]))])
        elif f == "sympy":
            arg[sympy.Symbol(n)] = vals[n]
            entries.append(["symbol", n, exprconv.to_sexp(_rat(vals[n]))])
        else:
            arg[pm_Expr.symbol(n)] = vals[n]
            entries.append(["expr", n, exprconv.to_sexp(_rat(vals[n]))])
    if form == "series":
        arg = pd.Series(arg)
    return arg, vals, entries


def make_dataset(model, rng):
    """A small dataset with the model's columns: 2-3 individuals, 2-3 records each, values differ from the model's."""
    src = model.dataset
    idcol = model.datainfo.id_column.name
    ids = list(src[idcol].unique())
    pick = sorted(rng.sample(ids, min(len(ids), rng.randint(2, 3))))
    parts = []
    for i in pick:
        rows = src[src[idcol] == i]
        parts.append(rows.iloc[sorted(rng.sample(range(len(rows)), min(len(rows), rng.randint(2, 3))))])
    df = pd.concat(parts).reset_index(drop=True).copy()
    for col in df.columns:
        if col in (idcol, "DV") or not np.issubdtype(df[col].dtype, np.number):
            continue
        if set(src[col].unique()) <= {0, 1} or col == "AMT":
            continue        # flags / occasions / doses keep their values
        df[col] = [float(f"{float(x) * rng.choice([0.5, 1.5, 2.0]) + rng.choice([0, 0.25]):.4g}") for x in df[col]]
    return df


def make_etas(model, df, rng):
    idcol = model.datainfo.id_column.name
    ids = list(df[idcol].unique())
    names = list(model.random_variables.etas.names)
    return pd.DataFrame({n: [rng.choice([-1, 1]) * rng.randint(1, 30) / 100 for _ in ids] for n in names}, index=ids)


class Direct:
    """Independent direct evaluation of the model function at one record."""

    def __init__(self, model, seed):
        self.model = model
        self.seed = seed
        self.inits = {p.name: _rat(p.init) for p in model.parameters}
        self.eta_names = list(model.random_variables.etas.names)
        self.eps_names = list(model.random_variables.epsilons.names)
        self.small = set(model.random_variables.names)

    def env(self, row, params, etas, eps):
        ov = dict(self.inits)
        ov.update({k: _rat(v) for k, v in params.items()})
        for col, v in row.items():
            try:
                ov[str(col)] = _rat(v)
            except Exception:
                pass
        ov.update({n: sympy.Integer(0) for n in self.eta_names + self.eps_names})
        ov.update(etas)
        ov.update(eps)
        return ov

    def value(self, symbol, row, params, etas=None, eps=None):
        a, _, _ = U.evaluate(self.model.statements, self.seed, small=self.small,
                             override=self.env(row, params, etas or {}, eps or {}))
        return a.get(symbol)

    def fd(self, symbol, row, params, etas, eps, wrt):
        h = sympy.Rational(1, 10**12)
        base = dict(etas)
        base.update(eps)
        x0 = base.get(wrt, sympy.Integer(0))

        def f(x):
            e2 = dict(etas)
            p2 = dict(eps)
            (e2 if wrt in self.eta_names else p2)[wrt] = x
            return sympy.N(self.value(symbol, row, params, e2, p2), 60)
        return (f(x0 + h) - f(x0 - h)) / (2 * h)


def _close(got, want, rtol=RTOL):
    try:
        g = complex(got)
        w = complex(sympy.N(want, 30))
    except Exception:
        return False
    if np.isnan(g.real) or np.isnan(w.real):
        return np.isnan(g.real) and np.isnan(w.real)
    return abs(g - w) <= rtol * (1 + abs(w))


def _wres_formula(model, G, H, F, df, omega, sigma):
    from scipy import linalg
    idcol = model.datainfo.id_column.name
    index = df[idcol]
    G, H, F = G.copy(), H.copy(), F.copy()
    G.index = index
    H.index = index
    F.index = index
    out = np.float64([])
    for i in index.unique():
        Gi = np.float64(G.loc[[i]])
        Hi = np.float64(H.loc[[i]])
        Fi = F.loc[i:i]
        DVi = (df["DV"][index == i]).astype(np.float64).values
        Ci = Gi @ omega @ Gi.T + np.diag(np.diag(Hi @ sigma @ Hi.T))
        out = np.concatenate((out, linalg.sqrtm(linalg.inv(Ci)) @ (DVi - Fi)))
    return out


def run(pm, Expr, model, w, drv, seed, tags, dv="Y", ncombos=2, what=""):
    """Returns (k, mon).  `w` = wire of model.statements (ODE-free) or None."""
    rng = random.Random(seed ^ 0x5EED07)
    k, mon = [], []
    D = Direct(model, seed)
    idcol = model.datainfo.id_column.name
    inits_w = [[p.name, exprconv.to_sexp(_rat(p.init))] for p in model.parameters]
    eps0 = D.eps_names
    # every case: one symbol-typed key form and one other form; partial / etas / dataset by the seed
    combos = [(rng.choice(["sympy", "expr", "mixed"]), False, rng.random() < 0.5, rng.random() < 0.5)]
    for _ in range(ncombos - 1):
        combos.append((rng.choice(FORMS), rng.random() < 0.3, rng.random() < 0.5, rng.random() < 0.5))
    for form, partial, with_etas, with_ds in combos:
        arg, vals, entries = make_parameters(Expr, model, rng, form, partial and form != "none")
        is_partial = form != "none" and len(vals) < len(model.parameters)
        df = make_dataset(model, rng) if with_ds else model.dataset
        etas_df = make_etas(model, df, rng) if with_etas else None
        desc = f"params={form}{'/partial' if is_partial else ''}:etas={'given' if with_etas else 'default'}:dataset={'given' if with_ds else 'default'}"
        tags.append("ev:" + desc)
        rows = sorted(rng.sample(range(len(df)), min(len(df), 2)))
        kw_ds = {"dataset": df} if with_ds else {}

        def etas_at(i, default_iie):
            if etas_df is not None:
                src = etas_df
            elif default_iie and model.initial_individual_estimates is not None:
                src = model.initial_individual_estimates
            else:
                return {}
            rid = df.iloc[i][idcol]
            return {n: _rat(src.loc[rid, n]) for n in D.eta_names if n in src.columns}

        def call(name, fn, refusal_ok):
            try:
                return fn()
            except Exception as e:
                if type(e).__name__ == "CaseTimeout":
                    raise
                if isinstance(e, ValueError) and "all scalar values" in str(e):
                    # eval_expr: the lambdified function of an expression whose value does not depend on the data
                    # (e.g. d/dETA of a Piecewise with constant branches) returns a scalar, not an array
                    mon.append({"cls": "evaluator-scalar-result-for-constant-expression", "what": f"{what}{name}({desc}) raised "
                                f"ValueError: {str(e)[:120]}"})
                elif refusal_ok:
                    tags.append(f"ev-refused:{name}:{type(e).__name__}")
                else:
                    mon.append({"cls": f"evaluator-raises:{name}:params={form}", "what": f"{what}{name}({desc}) raised "
                                f"{type(e).__name__}: {str(e)[:160]}"})
                return None

        def check(name, out, expect_fn, rtol=RTOL, col=None):
            if out is None:
                return
            if len(out) != len(df):
                # pd.Series(scalar) has length 1: eval_expr returned a scalar (same defect as the ValueError above)
                cls = ("evaluator-scalar-result-for-constant-expression" if len(out) == 1 and len(df) != 1
                       else f"evaluator-wrong:{name}:params={form}")
                mon.append({"cls": cls, "what": f"{what}{name}({desc}) returned {len(out)} value(s) for {len(df)} records"})
                return
            for i in rows:
                got = (out[col] if col is not None else out).iloc[i]
                want = expect_fn(i)
                if want is None or not _close(got, want, rtol):
                    mon.append({"cls": f"evaluator-wrong:{name}:params={form}",
                                "what": f"{what}{name}({desc}, parameters={_show(arg)}) record {i}"
                                f"{'' if col is None else ' ' + col}: pharmpy {got!r}, direct evaluation of the statements at "
                                f"those parameter values {None if want is None else sympy.N(want, 12)}"})
                    return

        # a partial mapping is only promised to work by evaluate_expression (it merges over the inits)
        ref = is_partial
        pred = call("evaluate_population_prediction", lambda: pm.evaluate_population_prediction(model, parameters=arg, **kw_ds), ref)
        check("evaluate_population_prediction", pred, lambda i: D.value(dv, df.iloc[i], vals))
        ipred = call("evaluate_individual_prediction", lambda: pm.evaluate_individual_prediction(model, etas=etas_df, parameters=arg, **kw_ds), ref)
        check("evaluate_individual_prediction", ipred, lambda i: D.value(dv, df.iloc[i], vals, etas_at(i, False)))
        G = call("evaluate_eta_gradient", lambda: pm.evaluate_eta_gradient(model, etas=etas_df, parameters=arg, **kw_ds), ref)
        for n in D.eta_names:
            check("evaluate_eta_gradient", G, lambda i: D.fd(dv, df.iloc[i], vals, etas_at(i, True), {}, n), 1e-8, col=f"dF/d{n}")
        H = call("evaluate_epsilon_gradient", lambda: pm.evaluate_epsilon_gradient(model, etas=etas_df, parameters=arg, **kw_ds), ref)
        for n in D.eps_names:
            check("evaluate_epsilon_gradient", H, lambda i: D.fd(dv, df.iloc[i], vals, etas_at(i, True), {}, n), 1e-8, col=f"dY/d{n}")

        # K for the predictions: the Lean evaluator's expression, evaluated exactly at the sampled records
        if drv is not None and w is not None and not is_partial:
            for name, out, zero, use_etas in [("evaluate_population_prediction", pred, eps0 + D.eta_names, False),
                                             ("evaluate_individual_prediction", ipred, eps0, True)]:
                if out is None or len(out) != len(df):
                    continue
                ans = drv.ask(["evalpred", w, dv, zero, inits_w, "direct", entries])
                if ans[0] == "none":
                    k.append(f"{name}: model none, code returned values")
                    continue
                me = exprconv.from_sexp(ans[0][1])
                for i in rows:
                    env = D.env(df.iloc[i], {}, etas_at(i, False) if use_etas else {}, {})
                    v = me.xreplace({o: env.get(str(o), sympy.nan) for o in me.free_symbols | me.atoms(sympy.core.function.AppliedUndef)})
                    v = sympy.piecewise_fold(v) if v.has(sympy.Piecewise) else v
                    if not _close(out.iloc[i], v):
                        k.append(f"{name}({desc}) record {i}: model {sympy.N(v, 12)} code {out.iloc[i]!r}")
                        break

        # evaluate_expression: the model's own dataset only; merges the mapping over the inits
        if not with_ds and not with_etas:
            rvs = {sympy.Symbol(n) for n in model.random_variables.names}
            targets = [model.parameters.names[rng.randrange(len(model.parameters))]]
            for s in model.statements:
                if U.is_assignment(s) and str(s.symbol) != dv:
                    try:
                        # the symbols pharmpy (symengine) sees: its sympy image may have folded an eta branch away
                        full_syms = {str(x) for x in model.statements.before_odes.full_expression(s.symbol).free_symbols}
                    except Exception as e:
                        if type(e).__name__ == "CaseTimeout":
                            raise
                        continue
                    if not (full_syms & {str(x) for x in rvs}):
                        targets.append(str(s.symbol))
            targets = targets[:1] + targets[-1:] if len(targets) > 1 else targets
            erows = sorted(rng.sample(range(len(model.dataset)), 2))
            for tg in targets:
                out = call("evaluate_expression", lambda: pm.evaluate_expression(model, tg, parameter_estimates=arg), False)
                if out is None:
                    continue
                is_param = tg in model.parameters.names
                if len(out) != len(model.dataset):
                    cls = ("evaluator-scalar-result-for-constant-expression" if len(out) == 1
                           else f"evaluator-wrong:evaluate_expression:params={form}")
                    mon.append({"cls": cls, "what": f"{what}evaluate_expression({tg!r}) returned {len(out)} value(s) for {len(model.dataset)} records"})
                    continue
                for i in erows:
                    row = model.dataset.iloc[i]
                    want = D.env(row, vals, {}, {})[tg] if is_param else D.value(tg, row, vals)
                    if want is None or not _close(out.iloc[i], want):
                        mon.append({"cls": f"evaluator-wrong:evaluate_expression:params={form}",
                                    "what": f"{what}evaluate_expression({tg!r}, parameter_estimates={_show(arg)}) record {i}: pharmpy "
                                    f"{out.iloc[i]!r}, direct evaluation {None if want is None else sympy.N(want, 12)}"})
                        break
                if drv is not None and w is not None:
                    ans = drv.ask(["evalexpr", w, tg, inits_w, "merge", entries])
                    if ans == "none":
                        k.append(f"evaluate_expression({tg}): model none")
                    else:
                        me = exprconv.from_sexp(ans[1])
                        for i in erows:
                            env = D.env(model.dataset.iloc[i], {}, {}, {})
                            env = {kk: vv for kk, vv in env.items() if kk not in D.inits}
                            v = me.xreplace({o: env.get(str(o), sympy.nan) for o in me.free_symbols})
                            v = sympy.piecewise_fold(v) if v.has(sympy.Piecewise) else v
                            if not _close(out.iloc[i], v):
                                k.append(f"evaluate_expression({tg}, {desc}) record {i}: model {sympy.N(v, 12)} code {out.iloc[i]!r}")
                                break

        # weighted residuals: the documented formula over the (checked) gradient / prediction evaluators
        # (on the model's full dataset only now and then: one matrix inverse per individual, three times)
        if "DV" in df.columns and not is_partial and (with_ds or rng.random() < 0.1):
            full_str = {n: float(D.inits[n]) for n in D.inits}
            full_str.update(vals)
            try:
                zeros = pd.DataFrame(0, index=df[idcol].unique(), columns=D.eta_names)
                Gs = pm.evaluate_eta_gradient(model, etas=zeros, parameters=full_str, dataset=df)
                Hs = pm.evaluate_epsilon_gradient(model, etas=zeros, parameters=full_str, dataset=df)
                Fs = pm.evaluate_population_prediction(model, parameters=full_str, dataset=df)
                sub = {sympy.Symbol(n): v for n, v in full_str.items()}
                omega = np.float64(sympy.Matrix(model.random_variables.etas.covariance_matrix).xreplace(sub).tolist())
                sigma = np.float64(sympy.Matrix(model.random_variables.epsilons.covariance_matrix).xreplace(sub).tolist())
                want = _wres_formula(model, Gs, Hs, Fs, df, omega, sigma)

                def defect_formula():
                    try:
                        F0 = pm.evaluate_population_prediction(model)
                        if len(F0) == len(df):
                            return _wres_formula(model, Gs, Hs, F0, df, omega, sigma)
                    except Exception as e:
                        if type(e).__name__ == "CaseTimeout":
                            raise
                    return None
            except Exception as e:
                if type(e).__name__ == "CaseTimeout":
                    raise
                want = None
                tags.append(f"ev-wres-reference-failed:{type(e).__name__}")
            if want is not None and np.all(np.isfinite(np.real(want))):
                args_given = form != "none" or with_ds
                defect_cls = "evaluate-weighted-residuals-prediction-ignores-arguments"
                try:
                    got = np.asarray(pm.evaluate_weighted_residuals(model, parameters=arg, **kw_ds))
                except Exception as e:
                    if type(e).__name__ == "CaseTimeout":
                        raise
                    got = None
                    # F is computed from the model's own dataset: with another dataset the lengths do not match
                    if with_ds and len(df) != len(model.dataset) and isinstance(e, ValueError):
                        mon.append({"cls": defect_cls, "what": f"{what}evaluate_weighted_residuals({desc}) raised ValueError: {str(e)[:120]}"})
                    else:
                        mon.append({"cls": f"evaluator-raises:evaluate_weighted_residuals:params={form}",
                                    "what": f"{what}evaluate_weighted_residuals({desc}) raised {type(e).__name__}: {str(e)[:160]}"})
                if got is not None:
                    ok = got.shape == want.shape and np.allclose(np.real(got), np.real(want), rtol=1e-6, atol=1e-9)
                    if not ok:
                        want_defect = defect_formula() if args_given else None
                        is_defect = args_given and want_defect is not None and got.shape == want_defect.shape and \
                            np.allclose(np.real(got), np.real(want_defect), rtol=1e-6, atol=1e-9)
                        j = int(np.argmax(np.abs(np.real(got) - np.real(want)))) if got.shape == want.shape else 0
                        mon.append({"cls": defect_cls if is_defect else f"evaluator-wrong:evaluate_weighted_residuals:params={form}",
                                    "what": f"{what}evaluate_weighted_residuals({desc}, parameters={_show(arg)}) record {j}: pharmpy "
                                    f"{got[j] if got.shape == want.shape else got.shape}, formula over G, H, PRED at those parameters / that dataset "
                                    f"{want[j]}" + (" (equals the formula with PRED taken at the initial estimates on the model's dataset)" if is_defect else "")})
                tags.append("ev:wres")
    return k, mon


def _show(arg):
    if arg is None:
        return "None"
    if isinstance(arg, pd.Series):
        return "Series" + str({k: v for k, v in arg.items()})
    return "{" + ", ".join(f"{type(k).__name__}({k}): {v}" for k, v in arg.items()) + "}"
