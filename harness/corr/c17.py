"""C17 — Workflows execute as their task graph specifies.

K   : Lean model (PharmpyModel/C17/{Graph,Model,Sched}.lean) vs the real
      WorkflowBuilder / Workflow / insert_context / execute_workflow on seeded programs of
      builder operations: the graph after EVERY operation (node order, successor and
      predecessor orders, input/output tasks), the workflow execute_workflow hands to the
      dispatcher, the dask dict, the dict of the call_workflow path, the result term, and a
      replay of every OBSERVED firing order of dask in the abstract scheduler of the model.
Mon : the property statement on the real code: result == sequential topological evaluation
      with (static inputs, predecessor results in entering order), every task called exactly
      once and after its predecessors, same result under every scheduler; every builder
      operation yields exactly the declared task and edge sets; output_tasks/input_tasks == tasks without
      successors/predecessors whenever they are read; the final workflow == the independent reference
      composition of the whole history (declared_after applied to the declared state), and its execution
      (result, per-task call counts) == the evaluation of that declared graph.
"""
from __future__ import annotations

import os
import random

ID = "C17"
CTX_BASE = 100000     # ids of Task objects created by insert_context inside a builder history
DRIVER = "drv_c17"
LEAN_TARGETS = ["PharmpyProofs.C17.Properties", "PharmpyProofs.C17.ScatterProperties", "drv_c17"]
PROPERTIES = ["PharmpyProofs/C17/Properties.lean", "PharmpyProofs/C17/ScatterProperties.lean"]
LEAN_SOURCES = ["PharmpyModel/C17/*.lean", "PharmpyModel/Generated/C17Task.lean", "PharmpyProofs/C17/*.lean", "Drivers/C17.lean"]
TIME_LIMIT = {"quick": 900, "thorough": 3000}
CASE_CPU_LIMIT = 30
RULE = ("about 1 case in 12 is a dask dict (2-7 tasks, one sink) given to the distributed dispatcher's graph rewriting optimize_task_graph_for_dask_distributed under a recording client: static inputs are kept values (str/int/bool/dict/range/callable), None, hashable value objects and unhashable objects (scattered), nested lists, empty and literal tuples; value objects take their equality key from a pool of 1-3 with a unique observable label, so distinct objects that compare and hash equal occur in different tasks by construction; the rewritten graph with futures read as their datum must be the declared graph and evaluate like it. About 1 case in 40 is a NESTED execution on the real distributed dispatcher (LocalCluster in-process): a parent workflow in which 1-2 tasks call context.call_workflow on child workflows (grandchildren possible, two siblings alive at once), all graphs instances of 1-2 recipes so that live graphs share task names and positions but differ in static inputs (in 2/3 of these cases most tasks also get a scattered value-object static input with an equality key from a pool of 1-2); compared with the sequential evaluation (children first), exactly-once calls per (graph, task), key-disjointness of all submitted dicts. The other cases: seeded programs of builder operations (new/tasks=, add_task with 0-3 predecessors in random order, "
        "replace_task, insert_workflow with None/explicit predecessors incl. N:N, 1:N, N:1, N:M, "
        "+, Workflow()/WorkflowBuilder() copies, reading input_tasks/output_tasks between steps, "
        "add_task(t, predecessors=wb.output_tasks), insert_context on the builder mid-history, and the history "
        "'read outputs; replace an output task / insert_context; compose again'; in half of the cases 15-30% of the "
        "added tasks are DISTINCT Task objects equal by value (same name, same function object, equal static inputs) "
        "to an earlier task, and sub-workflow recipes are instantiated again with value-twin tasks) building a workflow of <= 12 tasks (quick) / <= 30 (thorough), "
        "usually closed with one sink; task i returns the term 't<i>(args)' so the result spells the whole "
        "evaluation; ~35% of tasks take `context`; a few static inputs are dask graph literals ('results', "
        "(callable, ...), lists of those). Each workflow is executed through execute_workflow with "
        "dask.threaded.get, dask.get, dask.get under 2 seeded random priorities, and threaded with seeded delays. "
        "non-trivial = executed workflow with >= 3 tasks and a task with >= 2 predecessors; distinct = distinct case JSON")
TRUSTED = [
    "Lean 4.33 kernel; axioms propext, Quot.sound, Classical.choice only (audited per theorem each run)",
    "hand-written model PharmpyModel/C17 tied to workflow.py/execute.py by the correspondence run of this invocation",
    "networkx 3.6.1 order semantics (insertion-ordered dicts; relabel_nodes(copy=False), compose, copy) as modelled in "
    "Graph.lean and compared after every builder operation",
    "dask: get fires each needed key once after the keys it mentions (abstract scheduler; every observed firing order "
    "is replayed in the model); graph-literal rules for str/tuple/list static inputs",
    "harness/corr/c17.py (generator, term-building task family, canonicalisation by task name)",
    "the distributed dispatcher is exercised for nested cases only (LocalCluster(processes=False) in the worker process); "
    "distributed's scheduler and dask's fuse are not modelled beyond dask's get contract; optimize_task_graph_for_dask_distributed's "
    "scattering is modelled (Scatter.lean) and compared under a recording client whose Futures stand for the scattered datum",
    "uuid4 freshness: every as_dask_dict call draws keys no other live graph has (stated as hypothesis of "
    "scheduler_keys_distinct; checked on the real dicts of every case)",
]
ASSUMPTIONS = [
    "task functions are pure; tasks are identified by object identity (nodes are numbered by the harness; "
    "checked against task.py on every run by translator T-C17-task-identity)",
    "uuid4 keys never collide and never equal a static input string; 'results' is the only nameable key",
    "the order in which predecessor tasks 'entered the workflow' is the node order of the Workflow passed to execute_workflow",
]


def translators():
    from harness.translate import c17_task
    return [("T-C17-task-identity", c17_task.run)]


def budget(tier):
    return int(os.environ.get("VERIF_BUDGET", 0)) or {"quick": 8000, "thorough": 60000}[tier]


# ---------------------------------------------------------------- generation

def gen_static(rng: random.Random, hazard: bool, counter):
    out = []
    for _ in range(rng.choice([0, 0, 1, 1, 2])):
        counter[0] += 1
        out.append(["s", f"s{counter[0]}"])
    if hazard:
        r = rng.random()
        if r < 0.3:
            h = ["s", "results"]
        elif r < 0.6:
            h = ["call", rng.randint(0, 3)] + [f"a{rng.randint(0, 9)}" for _ in range(rng.randint(0, 2))]
        elif r < 0.8:
            h = ["list", ["s", "x"], ["call", rng.randint(0, 3), "b"]]
        elif r < 0.9:
            h = ["list", ["s", "results"]]
        else:
            h = ["list", ["s", "p"], ["s", "q"]]   # harmless list
        out.insert(rng.randint(0, len(out)), h)
    return out


def gen_case(rng: random.Random, tier: str):
    maxn = 12 if tier == "quick" else 30
    target = rng.randint(1, maxn)
    wild = rng.random() < 0.03
    hazard_case = rng.random() < 0.06
    pctx = rng.choice([0.0, 0.2, 0.35, 0.5, 1.0])
    tasks = []
    counter = [0]

    def new_task(twin_of=None):
        """a new Task object; with twin_of: a DISTINCT object equal by value (same name, function, static inputs)"""
        i = len(tasks)
        if twin_of is not None:
            o = tasks[twin_of]
            tasks.append([i, o[1], [x for x in o[2]], o[3] if len(o) > 3 else o[0]])
            return i
        hz = hazard_case and rng.random() < 0.25
        tasks.append([i, rng.random() < pctx, gen_static(rng, hz, counter)])
        return i

    ptwin = rng.choice([0.0, 0.0, 0.15, 0.3])      # how often a step re-uses the value of an earlier task
    recipes = {}                                    # sub-builder -> (task ids, roots, [(index, [pred indices])])

    ops = []
    members = {0: []}            # builder -> task ids (approximate bookkeeping for choosing arguments)
    nb = [1]

    def pick_preds(pool, kmax=3):
        k = rng.randint(0, min(kmax, len(pool)))
        return rng.sample(pool, k)

    def build_sub(size):
        if recipes and rng.random() < ptwin * 1.5:
            return build_sub_again(rng.choice(sorted(recipes)))
        b = nb[0]
        nb[0] += 1
        ts = [new_task() for _ in range(size)]
        nroots = rng.randint(1, size)
        if rng.random() < 0.5:
            ops.append(["newtasks", b, ts[:nroots]])
        else:
            ops.append(["new", b])
            for t in ts[:nroots]:
                ops.append(["add", b, t, None])
        rec = []
        for j in range(nroots, size):
            ps = pick_preds(ts[:j], 2)
            rec.append((j, [ts.index(p) for p in ps]))
            ops.append(["add", b, ts[j], ps])
        members[b] = ts
        recipes[b] = (ts, nroots, rec)
        return b

    def build_sub_again(b0):
        """the sub-workflow 'factory' called a second time: same shape, every task a value-twin of the first instance"""
        ts0, nroots, rec = recipes[b0]
        b = nb[0]
        nb[0] += 1
        ts = [new_task(twin_of=t) for t in ts0]
        ops.append(["newtasks", b, ts[:nroots]])
        for j, pidx in rec:
            ops.append(["add", b, ts[j], [ts[k] for k in pidx]])
        members[b] = ts
        return b

    # initial content of builder 0
    if rng.random() < 0.5:
        n0 = rng.randint(1, 3)
        ts = [new_task() for _ in range(n0)]
        ops.append(["newtasks", 0, ts])
        members[0] = ts[:]
    else:
        ops.append(["new", 0])
    while len(tasks) < target:
        cur = members[0]
        if cur and rng.random() < 0.08:
            # history "observe the outputs, replace a (probable) output task, compose again"
            ops.append(["read", 0])
            if not wild and rng.random() < 0.3:
                ops.append(["ctx", 0])
            else:
                new = new_task()
                ops.append(["replace", 0, cur[-1], new])
                cur = members[0] = cur[:-1] + [new]
            if rng.random() < 0.5:
                b = build_sub(rng.randint(1, 2))
                ops.append(["insert", 0, b, None])
                members[0] = cur + members[b]
            else:
                t = new_task()
                ops.append(["addouts", 0, t])
                members[0] = cur + [t]
            continue
        r = rng.random()
        if r < 0.40 or not cur:
            t = new_task(twin_of=rng.choice(cur) if cur and rng.random() < ptwin else None)
            ps = pick_preds(cur)
            if wild and rng.random() < 0.3:
                ps = ps + [rng.randrange(len(tasks))]
            if len(ps) == 1 and rng.random() < 0.5:
                ops.append(["add", 0, t, ps[0]])          # non-list predecessor
            else:
                ops.append(["add", 0, t, ps if (ps or rng.random() < 0.5) else None])
            members[0] = cur + [t] + [p for p in ps if p not in cur and p != t]
        elif r < 0.62:
            size = rng.randint(1, max(1, min(4, target - len(tasks))))
            b = build_sub(size)
            if rng.random() < 0.4:
                ops.append(["freeze", b, b])
            mode = rng.random()
            if mode < 0.5:
                ps = None
            elif mode < 0.7:
                ps = rng.choice(cur)                       # non-list predecessor
            else:
                ps = rng.sample(cur, rng.randint(1, min(3, len(cur))))
            ops.append(["insert", 0, b, ps])
            members[0] = cur + members[b]
        elif r < 0.72:
            old = rng.choice(cur)
            if wild and rng.random() < 0.5:
                new = rng.randrange(len(tasks))
            else:
                new = new_task()
            ops.append(["replace", 0, old, new])
            members[0] = [new if x == old else x for x in cur]
        elif r < 0.79:
            size = rng.randint(1, max(1, min(3, target - len(tasks))))
            b = build_sub(size)
            ops.append(["plus", 0, 0, b])
            members[0] = cur + members[b]
        elif r < 0.83:
            ops.append(["freeze", 0, 0])
        elif r < 0.87:
            # more edges into an existing task, from tasks that entered earlier (keeps a DAG)
            j = rng.randrange(len(cur))
            pool = cur[:j] if not wild else cur
            if pool:
                ops.append(["add", 0, cur[j], pick_preds(pool, 2) or None])
        elif r < 0.92:
            ops.append(["read", rng.randrange(nb[0])])     # look at input_tasks / output_tasks
        elif r < 0.97 or wild:
            t = new_task()
            ops.append(["addouts", 0, t])                  # add_task(t, predecessors=wb.output_tasks)
            members[0] = cur + [t]
        else:
            ops.append(["ctx", 0])                         # insert_context on the builder, mid-history
    closes = rng.random() < 0.93
    scheds = ["threaded", "sync", f"rand:{rng.randrange(1 << 30)}", f"rand:{rng.randrange(1 << 30)}"]
    if rng.random() < 0.25:
        scheds.append(f"delay:{rng.randrange(1 << 30)}")
    return {"tasks": tasks, "ops": ops, "final": 0, "close": closes, "close_ctx": rng.random() < pctx,
            "close_shuffle": rng.randrange(1 << 30), "scheds": scheds, "seed": rng.randrange(1 << 30)}


def gen_recipe(rng: random.Random, n: int):
    """a small one-sink DAG on tasks 0..n-1 (names = positions): [(task, [predecessors])] in adding order"""
    rec, has_succ = [], set()
    for i in range(n - 1):
        ps = rng.sample(range(i), rng.randint(0, min(2, i))) if i else []
        rec.append((i, ps))
        has_succ |= set(ps)
    last = [i for i in range(n - 1) if i not in has_succ]
    rng.shuffle(last)
    rec.append((n - 1, last))
    return rec


def gen_nested(rng: random.Random, tier: str):
    """A parent workflow in which 1-2 tasks run a child workflow through context.call_workflow (children may call
    grandchildren).  Graphs are instances of few recipes, so different live graphs routinely have tasks with the
    SAME name at the SAME position, with different static inputs (hence different values)."""
    recipes = [gen_recipe(rng, rng.randint(2, 5)) for _ in range(rng.randint(1, 2))]
    graphs = []
    pobj = rng.choice([0.0, 0.6, 0.9])     # static inputs that are value objects: equal (same key), distinct, labelled
    nkeys = rng.randint(1, 2)
    nobj = [0]

    def instance(depth):
        g = len(graphs)
        rec = rng.choice(recipes)
        graphs.append(None)
        n = len(rec)
        ncall = 0 if depth >= 2 else (rng.randint(1, 2) if depth == 0 else (1 if rng.random() < 0.25 else 0))
        callers = sorted(rng.sample(range(n), min(ncall, n)))
        pctx = rng.choice([0.0, 0.0, 0.3])
        tasks, calls = [], {}
        for i in range(n):
            st = [["s", f"g{g}s{i}"]] if rng.random() < 0.8 else []
            if rng.random() < pobj:
                # a value object (scattered by the distributed dispatcher): equality key from a small pool, label unique
                nobj[0] += 1
                st.insert(rng.randint(0, len(st)), ["obj", rng.randrange(nkeys), nobj[0]])
            tasks.append([i, i in callers or rng.random() < pctx, st])
        ops = [["new", 0]] + [["add", 0, t, ps if ps else None] for t, ps in rec]
        graphs[g] = {"tasks": tasks, "ops": ops, "calls": calls}
        for c in callers:
            calls[str(c)] = instance(depth + 1)
        return g

    instance(0)
    return {"kind": "nested", "graphs": graphs, "seed": rng.randrange(1 << 30)}


def gen_cases(rng: random.Random, n: int, tier: str):
    # about 1 case in 40 is a nested execution on the real distributed dispatcher (LocalCluster in-process);
    # about 1 in 12 a dask graph with scattered static inputs given to the distributed dispatcher's graph rewriting
    from harness.corr import c17_util as U
    out = []
    for _ in range(n):
        r = rng.random()
        out.append(gen_nested(rng, tier) if r < 0.025 else U.gen_scatter(rng, tier) if r < 0.105 else gen_case(rng, tier))
    return out


def corpus_cases():
    S = lambda x: ["s", x]
    base = {"final": 0, "close": False, "close_ctx": False, "close_shuffle": 1,
            "scheds": ["threaded", "sync", "rand:1"], "seed": 1}
    return [
        # predecessors declared [0,1], node order 1,0: argument order is node order
        dict(base, tasks=[[0, False, [S("s0")]], [1, False, []], [2, False, [S("k")]]],
             ops=[["new", 0], ["add", 0, 1, None], ["add", 0, 0, None], ["add", 0, 2, [0, 1]]]),
        # the same with a context-taking first predecessor: it is moved behind the other one
        dict(base, tasks=[[0, False, [S("s0")]], [1, True, []], [2, False, [S("k")]]],
             ops=[["new", 0], ["add", 0, 1, None], ["add", 0, 0, None], ["add", 0, 2, [0, 1]]]),
        # F7: a static str equal to the key 'results' -> dask cycle
        dict(base, tasks=[[0, False, [S("results")]], [1, False, []]],
             ops=[["newtasks", 0, [0]], ["add", 0, 1, [0]]]),
        # F7: a static tuple headed by a callable is executed
        dict(base, tasks=[[0, False, [["call", 1, "a"]]], [1, False, [["list", S("x"), ["call", 2, "b"]]]]],
             ops=[["newtasks", 0, [0]], ["add", 0, 1, [0]]]),
        # insert_workflow N:M refusal must leave the builder unchanged (was composed before fix f697869)
        dict(base, tasks=[[i, False, []] for i in range(5)],
             ops=[["newtasks", 0, [0, 1]], ["newtasks", 1, [2, 3, 4]], ["insert", 0, 1, None]], close=True),
        # map-reduce of tests/workflows/test_execute.py
        dict(base, tasks=[[i, False, [S(f"v{i}")] if i < 3 else []] for i in range(7)],
             ops=[["newtasks", 0, [0, 1, 2]], ["newtasks", 1, [3, 4, 5]], ["insert", 0, 1, None],
                  ["newtasks", 2, [6]], ["insert", 0, 2, None]]),
        # observe outputs, replace the output task, compose with "all output tasks", join the outputs
        dict(base, tasks=[[0, False, [S("1")]], [1, False, []], [2, False, []], [3, False, []], [4, False, []], [5, False, []]],
             ops=[["new", 0], ["add", 0, 0, None], ["add", 0, 1, 0], ["read", 0], ["replace", 0, 1, 2],
                  ["new", 1], ["add", 1, 3, None], ["add", 1, 4, [3]], ["insert", 0, 1, None], ["read", 0], ["addouts", 0, 5]]),
        # the same with insert_context doing the replacement
        dict(base, tasks=[[0, False, []], [1, True, []], [2, False, []]],
             ops=[["new", 0], ["add", 0, 0, None], ["add", 0, 1, 0], ["read", 0], ["ctx", 0], ["addouts", 0, 2], ["read", 0]]),
        # two DISTINCT tasks equal by value (same name, function, static input) on two branches
        dict(base, tasks=[[0, False, [S("3")]], [1, False, [S("1")]], [2, False, [S("10")]], [3, False, [S("2")]],
                          [4, False, [S("2")], 3], [5, False, []]],
             ops=[["new", 0], ["add", 0, 0, None], ["add", 0, 1, [0]], ["add", 0, 2, [0]], ["add", 0, 3, [1]],
                  ["add", 0, 4, [2]], ["add", 0, 5, [3, 4]]]),
        # the same sub-workflow template instantiated twice and inserted after different predecessors
        dict(base, tasks=[[0, False, [S("a")]], [1, False, [S("b")]], [2, False, [S("1")]], [3, False, []],
                          [4, False, [S("1")], 2], [5, False, [], 3], [6, False, []]],
             ops=[["newtasks", 0, [0, 1]], ["new", 1], ["add", 1, 2, None], ["add", 1, 3, 2], ["insert", 0, 1, [0]],
                  ["new", 2], ["add", 2, 4, None], ["add", 2, 5, 4], ["insert", 0, 2, [1]], ["addouts", 0, 6]]),
        # nested execution: parent and child are instances of one diamond recipe; the last parent task calls the child
        {"kind": "nested", "seed": 7, "graphs": [
            {"tasks": [[0, False, [S("p0")]], [1, False, [S("p1")]], [2, False, [S("p2")]], [3, True, [S("p3")]]],
             "ops": [["new", 0], ["add", 0, 0, None], ["add", 0, 1, [0]], ["add", 0, 2, [0]], ["add", 0, 3, [1, 2]]],
             "calls": {"3": 1}},
            {"tasks": [[0, False, [S("c0")]], [1, False, [S("c1")]], [2, False, [S("c2")]], [3, False, [S("c3")]]],
             "ops": [["new", 0], ["add", 0, 0, None], ["add", 0, 1, [0]], ["add", 0, 2, [0]], ["add", 0, 3, [1, 2]]],
             "calls": {}}]},
        # two sibling children alive at once
        {"kind": "nested", "seed": 8, "graphs": [
            {"tasks": [[0, False, [S("p0")]], [1, True, []], [2, True, []], [3, False, []]],
             "ops": [["new", 0], ["add", 0, 0, None], ["add", 0, 1, [0]], ["add", 0, 2, [0]], ["add", 0, 3, [1, 2]]],
             "calls": {"1": 1, "2": 2}},
            {"tasks": [[0, False, [S("a0")]], [1, False, [S("a1")]]], "ops": [["new", 0], ["add", 0, 0, None], ["add", 0, 1, [0]]], "calls": {}},
            {"tasks": [[0, False, [S("b0")]], [1, False, [S("b1")]]], "ops": [["new", 0], ["add", 0, 0, None], ["add", 0, 1, [0]]], "calls": {}}]},
        # two sinks: documented refusal
        dict(base, tasks=[[0, False, []], [1, False, []]], ops=[["newtasks", 0, [0, 1]]]),
        # distributed dispatcher: two tasks whose static inputs are DISTINCT objects that compare equal (same key)
        {"kind": "nested", "seed": 9, "graphs": [
            {"tasks": [[0, False, [["obj", 0, 1]]], [1, False, [["obj", 0, 2]]], [2, False, []]],
             "ops": [["new", 0], ["add", 0, 0, None], ["add", 0, 1, None], ["add", 0, 2, [0, 1]]], "calls": {}}]},
    ] + __import__("harness.corr.c17_util", fromlist=["x"]).scatter_corpus()


def shrink(case):
    if case.get("kind") == "scatter":
        from harness.corr import c17_util as U
        yield from U.shrink_scatter(case)
        return
    if case.get("kind") == "nested":
        gs = case["graphs"]
        for g, gr in enumerate(gs):
            for k, t in enumerate(gr["tasks"]):
                if t[2]:
                    c = json_copy(case)
                    c["graphs"][g]["tasks"][k][2] = []
                    yield c
                if t[1] and str(t[0]) not in gr["calls"]:
                    c = json_copy(case)
                    c["graphs"][g]["tasks"][k][1] = False
                    yield c
            for key in list(gr["calls"]):
                c = json_copy(case)
                del c["graphs"][g]["calls"][key]
                yield c
        return
    ops = case["ops"]
    for i in range(len(ops) - 1, 0, -1):
        c = dict(case)
        c["ops"] = ops[:i] + ops[i + 1:]
        yield c
    if len(case["scheds"]) > 1:
        for s in case["scheds"]:
            c = dict(case)
            c["scheds"] = [s]
            yield c
    for k, t in enumerate(case["tasks"]):
        if t[2]:
            for j in range(len(t[2])):
                c = dict(case)
                c["tasks"] = [list(x) for x in case["tasks"]]
                c["tasks"][k][2] = t[2][:j] + t[2][j + 1:]
                yield c
        if t[1]:
            c = dict(case)
            c["tasks"] = [list(x) for x in case["tasks"]]
            c["tasks"][k][1] = False
            yield c


# ---------------------------------------------------------------- real-code side

def json_copy(x):
    import json
    return json.loads(json.dumps(x))


def worker_init():
    global pharmpy, Task, Workflow, WorkflowBuilder, execute_workflow, insert_context, NullContext, local_dask
    global dask, time, tempfile, warnings
    import tempfile
    import time
    import warnings

    import dask  # noqa
    import dask.local  # noqa
    import dask.threaded  # noqa
    import pharmpy.workflows.dispatchers  # noqa
    from pharmpy.workflows import Task, Workflow, WorkflowBuilder, execute_workflow, local_dask  # noqa
    from pharmpy.workflows.contexts import NullContext  # noqa
    from pharmpy.workflows.workflow import insert_context  # noqa
    pharmpy.workflows.dispatchers.conf.dask_dispatcher = "threaded"
    import logging
    import distributed  # noqa  (its import installs its own log levels)
    for name in ("distributed", "distributed.scheduler", "distributed.worker", "distributed.core", "distributed.client",
                 "distributed.nanny", "distributed.batched", "distributed.comm"):
        logging.getLogger(name).setLevel(logging.CRITICAL)   # the scheduler's own warnings would flood the check's output


def render(x):
    if isinstance(x, str):
        return x
    if isinstance(x, list):
        return "[" + ",".join(render(y) for y in x) + "]"
    if isinstance(x, tuple):
        return "<" + ",".join(render(y) for y in x) + ">"
    if isinstance(x, NullContext):
        return "ctx"
    if callable(x):
        return x.__name__
    return repr(x)


class World:
    """The Task objects of one case, the call log and the spliceable callables g<j>."""

    def __init__(self, case):
        self.log = []
        self.glog = []
        self.delay = None
        self.gs = {}
        self.task = {}
        self.ident = {}
        self.spec = {t[0]: t for t in case["tasks"]}
        self.name = {}               # task id -> name number (tasks that are equal by value share it)
        self.fns = {}                # name number -> the ONE function object of that value class
        for t in case["tasks"]:
            self._make(t[0], t[1], t[2], t[3] if len(t) > 3 else t[0])

    def g(self, j):
        if j not in self.gs:
            def gf(*a, _j=j):
                self.glog.append(_j)
                return f"g{_j}(" + ",".join(render(x) for x in a) + ")"
            gf.__name__ = f"g{j}"
            self.gs[j] = gf
        return self.gs[j]

    def py_atom(self, a):
        if a == "ctx":
            return self.ctx
        if a[0] == "s":
            return a[1]
        if a[0] == "call":
            return (self.g(a[1]), *a[2:])
        raise ValueError(a)

    def py_static(self, s):
        if isinstance(s, list) and s and s[0] == "list":
            return [self.py_atom(a) for a in s[1:]]
        return self.py_atom(s)

    def _make(self, i, ctx, static, vk=None):
        """Task object number i.  Tasks with the same value key vk are DISTINCT objects with the same
        name, the same function object and equal static inputs (equal by value, different by identity)."""
        world = self
        vk = i if vk is None else vk
        if vk not in self.fns:
            if ctx:
                def f(context, *a, _i=vk):
                    if world.delay is not None:
                        time.sleep(world.delay.random() * 0.003)
                    world.log.append(_i)
                    return f"t{_i}(" + ",".join(render(x) for x in (context,) + a) + ")"
            else:
                def f(*a, _i=vk):
                    if world.delay is not None:
                        time.sleep(world.delay.random() * 0.003)
                    world.log.append(_i)
                    return f"t{_i}(" + ",".join(render(x) for x in a) + ")"
            f.__name__ = f"t{vk}"
            self.fns[vk] = f
        t = Task(f"t{vk}", self.fns[vk], *[self.py_static(s) for s in static])
        self.task[i] = t
        self.ident[id(t)] = i
        self.name[i] = vk

    def tid(self, t):
        """id of a Task object; an object the harness never saw is shown by name (then K/monitors disagree, no crash)"""
        i = self.ident.get(id(t))
        return i if i is not None else "?" + str(getattr(t, "name", t))

    def wire_atom(self, x):
        if isinstance(x, str):
            return ["s", x]
        if isinstance(x, NullContext):
            return "ctx"
        if isinstance(x, tuple) and x and callable(x[0]):
            return ["call", str(int(x[0].__name__[1:]))] + list(x[1:])
        raise ValueError(f"unexpected static input {x!r}")

    def wire_static(self, x):
        if isinstance(x, list):
            return ["list"] + [self.wire_atom(a) for a in x]
        return self.wire_atom(x)

    def literal(self, s):
        """The property's reading of a declared static input (rendered)."""
        return render(self.py_static(s))


def name_id(task):
    return int(task.name[1:])


def graph_dump(wb, ident):
    """Observable state through tasks / get_successors / get_predecessors only (input_tasks and
    output_tasks are read by the explicit `read` operation, so that reading is part of the history)."""
    ts = wb.tasks
    return [[str(ident(t)) for t in ts],
            [[str(ident(t)), [str(ident(s)) for s in wb.get_successors(t)]] for t in ts],
            [[str(ident(t)), [str(ident(s)) for s in wb.get_predecessors(t)]] for t in ts]]


def sinks_of(dump):
    """Independent reference: tasks without successors / predecessors, in node order."""
    return [u for u, vs in dump[1] if not vs]


def sources_of(dump):
    return [v for v, us in dump[2] if not us]


def sets_of(dump):
    nodes = set(dump[0])
    edges = {(u, v) for u, vs in dump[1] for v in vs}
    edges_p = {(u, v) for v, us in dump[2] for u in us}
    return nodes, edges, edges_p


def as_list(ps):
    if ps is None:
        return None
    return ps if isinstance(ps, list) else [ps]


def order_list(nodes, order):
    return [x for x in order if x in nodes] + sorted(set(nodes) - set(order))


def declared_after(op, bn, be, on, oe, border, oorder, ren):
    """The independent reference composition: task set and edge set a builder operation declares, from the
    sets before (bn, be), the other workflow's sets (on, oe), node orders (only used to list sinks/sources in
    node order for the N:N pairing) and, for insert_context, the renaming old -> new.
    Returns (nodes, edges, refused, tag)."""
    kind = op[0]
    n, e = set(bn), set(be)
    if kind == "new":
        return set(), set(), False, None
    if kind == "newtasks":
        return {str(t) for t in op[2]}, set(), False, None
    if kind == "add":
        t = str(op[2])
        ps = as_list(op[3]) or []
        return n | {t} | {str(p) for p in ps}, e | {(str(p), t) for p in ps}, False, None
    if kind == "addouts":
        t = str(op[2])
        has_succ = {u for u, _ in e}
        return n | {t}, e | {(p, t) for p in n if p not in has_succ}, False, None
    if kind in ("read", "freeze"):
        return n, e, False, None
    if kind == "replace":
        o, w = str(op[2]), str(op[3])
        if o not in n:
            return n, e, False, None
        r = lambda x: w if x == o else x
        return {r(x) for x in n}, {(r(u), r(v)) for u, v in e}, False, None
    if kind == "ctx":
        r = lambda x: ren.get(x, x)
        return {r(x) for x in n}, {(r(u), r(v)) for u, v in e}, False, None
    if kind == "plus":
        return n | set(on), e | set(oe), False, None
    if kind == "insert":
        # "If None all output tasks will be found and used as predecessors": the tasks without successors
        has_succ = {u for u, _ in e}
        has_pred = {v for _, v in oe}
        outs = [str(p) for p in as_list(op[3])] if op[3] is not None else \
            [x for x in order_list(n, border) if x not in has_succ]
        ins = [x for x in order_list(on, oorder) if x not in has_pred]
        if len(ins) == len(outs):
            conn, tag = {(o, i) for i, o in zip(ins, outs)}, "N:N"
        elif len(ins) == 1:
            conn, tag = {(o, ins[0]) for o in outs}, "N:1"
        elif len(outs) == 1:
            conn, tag = {(outs[0], i) for i in ins}, "1:N"
        else:
            return n, e, True, f"{len(outs)}:{len(ins)}"
        return n | set(on) | {x for c in conn for x in c}, e | set(oe) | conn, False, tag
    raise ValueError(kind)


def topo_order(nodes, preds):
    placed, out = set(), []
    progress = True
    while progress:
        progress = False
        for t in nodes:
            if t not in placed and all(p in placed for p in preds[t]):
                placed.add(t)
                out.append(t)
                progress = True
    return out if len(out) == len(nodes) else None


def hazardous(static):
    def at(a):
        return a != "ctx" and ((a[0] == "s" and a[1] == "results") or a[0] == "call")
    for s in static:
        if isinstance(s, list) and s and s[0] == "list":
            if any(at(a) for a in s[1:]):
                return True
        elif at(s):
            return True
    return False


class CapturingDispatcher:
    def __init__(self):
        self.wf = None

    def run(self, workflow, context):
        self.wf = workflow
        return local_dask.run(workflow, context)


class patched_scheduler:
    """dask.threaded.get replaced by the synchronous scheduler, optionally with seeded random priorities."""

    def __init__(self, kind):
        self.kind = kind

    def __enter__(self):
        self.old_get = dask.threaded.get
        self.old_order = dask.local.order
        if self.kind.startswith("sync") or self.kind.startswith("rand"):
            dask.threaded.get = dask.local.get_sync
        if self.kind.startswith("rand"):
            r = random.Random(int(self.kind.split(":")[1]))
            real_order = self.old_order

            def order(dsk, *a, **kw):
                o = real_order(dsk, *a, **kw)
                keys = sorted(o, key=str)
                prio = list(range(len(keys)))
                r.shuffle(prio)
                return dict(zip(keys, prio))
            dask.local.order = order
        return self

    def __exit__(self, *a):
        dask.threaded.get = self.old_get
        dask.local.order = self.old_order


def S(x):
    """nested ints -> strings, None -> 'none' (the form parsed driver answers have)."""
    if isinstance(x, (list, tuple)):
        return [S(y) for y in x]
    if x is None:
        return "none"
    if isinstance(x, bool):
        return "true" if x else "false"
    return str(x)


def wire_tasks(case):
    return [[t[0], bool(t[1]), t[2], t[3] if len(t) > 3 else t[0]] for t in case["tasks"]]


def wire_ops(ops):
    out = []
    for op in ops:
        if op[0] in ("add", "insert"):
            ps = as_list(op[3])
            out.append([op[0], op[1], op[2], "none" if ps is None else ps])
        else:
            out.append(list(op))
    return out


def run_case(case, drv):
    """run() of the local dispatcher makes a TemporaryDirectory and chdirs into it: keep it under the
    scratch root (never /tmp) and remove the scratch root after the case."""
    import shutil

    from harness.common.paths import scratch_root
    root = scratch_root()
    old_tmp = tempfile.tempdir
    tempfile.tempdir = str(root)
    os.chdir("/dev/shm")         # a stable cwd: run() chdirs into a temporary directory and back
    try:
        if case.get("kind") == "nested":
            return _run_nested(case, drv)
        from harness.corr import c17_util as U
        if case.get("kind") == "scatter":
            return U.run_scatter(case, drv)
        U.reset()
        with U.record_dicts():
            r = _run_case(case, drv)
        # every as_dask_dict() of the case (one per execution, the call_workflow path, the harness' own reads): the
        # keys of different dicts must be disjoint apart from 'results' — they may meet on one scheduler
        dicts = [d for _, d in U.SUBMITTED]
        dup = U.shared_keys(dicts)
        if dup:
            r["mon"].append({"cls": "dask-keys-shared-between-graphs",
                             "what": f"{len(dicts)} dask dicts were produced in this case; keys occurring in more than one "
                                     f"(a scheduler running two of these graphs would confuse the tasks): {dup[:6]}"})
        r["tags"].append("dicts-checked-for-shared-keys")
        return r
    finally:
        tempfile.tempdir = old_tmp
        shutil.rmtree(root, ignore_errors=True)


_HUNG = [False]       # per worker process: a nested execution deadlocked


def _run_nested(case, drv):
    """Nested execution on the real distributed dispatcher: tasks of the parent call context.call_workflow on child
    workflows while the parent graph is live on the same scheduler."""
    from harness.corr import c17_util as U
    k, mon, tags = [], [], []
    graphs = case["graphs"]
    U.reset()
    ctx = NullContext()
    token = case["seed"]
    wfs, info = {}, {}
    for g, gr in enumerate(graphs):
        objs, order, preds = {}, [], {}
        for t in gr["tasks"]:
            i, c, st = t[0], bool(t[1]), t[2]
            name = t[3] if len(t) > 3 else i
            if str(i) in gr["calls"]:
                fn = U.CallFn(name, (g, i), gr["calls"][str(i)], f"sub-{token}-{g}-{i}")
            elif c:
                fn = U.CtxTermFn(name, (g, i))
            else:
                fn = U.TermFn(name, (g, i))
            objs[i] = Task(f"t{name}", fn, *[U.Val(a[1], a[2]) if a[0] == "obj" else a[1] for a in st])
        wb = WorkflowBuilder(name=f"g{g}")
        for op in gr["ops"]:
            if op[0] == "new":
                wb = WorkflowBuilder(name=f"g{g}")
            elif op[0] == "add":
                ps = as_list(op[3])
                wb.add_task(objs[op[2]], predecessors=None if ps is None else [objs[p] for p in ps])
                if op[2] not in order:
                    order.append(op[2])
                preds.setdefault(op[2], [])
                preds[op[2]] += [p for p in (ps or []) if p not in preds[op[2]]]
            else:
                raise ValueError(f"nested cases use new/add only, got {op}")
        wfs[g] = Workflow(wb)
        info[g] = (order, preds, {t[0]: t for t in gr["tasks"]})
        if g > 0:
            U.CHILDREN[g] = wfs[g]
    tags.append("nested")
    tags.append(f"nested-graphs={len(graphs)}")
    tags.append(f"nested-callers-in-parent={len(graphs[0]['calls'])}")

    # ---- reference: sequential evaluation, children first (independent of dask and of the model)
    def lit(a):
        """the rendering of a declared static input: a str, or a value object 'v<key>#<label>'"""
        return f"v{a[1]}#{a[2]}" if a[0] == "obj" else a[1]
    if any(a[0] == "obj" for gr in graphs for t in gr["tasks"] for a in t[2]):
        tags.append("nested-scattered-static-inputs")
        keys_ = [[a[1] for t in gr["tasks"] for a in t[2] if a[0] == "obj"] for gr in graphs]
        if any(len(ks) != len(set(ks)) for ks in keys_):
            tags.append("nested-equal-distinct-static-objects")

    def seq(g, realised):
        order, preds, spec = info[g]
        pos = {t: j for j, t in enumerate(order)}
        val = {}
        for t in order:
            sp = spec[t]
            name = sp[3] if len(sp) > 3 else t
            args = ["ctx"] if sp[1] else []
            if str(t) in graphs[g]["calls"]:
                args.append(seq(graphs[g]["calls"][str(t)], realised))
            args += [lit(a) for a in sp[2]]
            key = (lambda p: (bool(spec[p][1]), pos[p])) if realised else (lambda p: pos[p])
            args += [val[p] for p in sorted(preds[t], key=key)]
            val[t] = f"t{name}(" + ",".join(args) + ")"
        sinks = [t for t in order if not any(t in preds[u] for u in order)]
        return val[sinks[0]] if len(sinks) == 1 else None
    ref, ref_realised = seq(0, False), seq(0, True)
    ctx_inv = ref != ref_realised
    reach, todo = set(), [0]
    while todo:
        g = todo.pop()
        if g not in reach:
            reach.add(g)
            todo += list(graphs[g]["calls"].values())
    expect_calls = {(g, t[0]): (1 if g in reach else 0) for g, gr in enumerate(graphs) for t in gr["tasks"]}

    # ---- the real thing: distributed dispatcher (LocalCluster(processes=False)) with call_workflow from inside tasks
    if _HUNG[0]:
        # an earlier nested execution of this worker process never finished (its cluster is still around): do not
        # start another one here; the ordinary cases go on
        return {"k": [], "mon": [], "tags": ["nested-skipped-after-hang"], "nontrivial": False}
    old = pharmpy.workflows.dispatchers.conf.dask_dispatcher
    pharmpy.workflows.dispatchers.conf.dask_dispatcher = "distributed"
    box = {}

    def target():
        try:
            with warnings.catch_warnings():
                warnings.simplefilter("ignore")
                box["res"] = ["ok", execute_workflow(wfs[0], context=ctx)]
        except BaseException as e:  # noqa
            box["exc"] = e
    import threading
    rec = U.record_dicts()
    rec.__enter__()
    th = threading.Thread(target=target, daemon=True)
    t0, marks = time.time(), [(time.time(), time.process_time())]
    th.start()
    hung = False
    while th.is_alive():
        th.join(1.0)
        now = time.time()
        marks.append((now, time.process_time()))
        marks = [m for m in marks if now - m[0] <= 10.5]
        idle = (now - marks[0][0] >= 9.5) and (marks[-1][1] - marks[0][1] < 0.2)
        if (now - t0 >= 25 and idle) or now - t0 >= 150:
            hung = True
            break
    rec.__exit__()
    pharmpy.workflows.dispatchers.conf.dask_dispatcher = old
    if hung:
        _HUNG[0] = True
        res = ["err", "does-not-finish"]
        mon.append({"cls": "nested-execution-does-not-finish",
                    "what": f"[distributed, nested] execute_workflow has not returned after {time.time() - t0:.0f} s "
                            f"(idle: deadlock); call log so far {list(U.LOG)}; keys shared between the submitted graphs: "
                            f"{U.shared_keys([d for _, d in U.SUBMITTED])[:6]}"})
    elif "exc" in box:
        e = box["exc"]
        if type(e).__name__ in ("CaseTimeout", "Timeout") or not isinstance(e, Exception):
            raise e
        res = ["err", type(e).__name__]
        mon.append({"cls": "execute-raised", "what": f"[distributed, nested] execute_workflow raised {type(e).__name__}: {str(e)[:200]}"})
    else:
        res = box["res"]
    log = list(U.LOG)
    dicts = [d for _, d in U.SUBMITTED]
    tags.append(f"nested-dicts-submitted={len(dicts)}")
    if res[0] == "ok":
        if res != ["ok", ref]:
            cls = "pred-order-context-task-moved" if ctx_inv and res == ["ok", ref_realised] else "nested-result-differs"
            mon.append({"cls": cls, "what": f"[distributed, nested] execute_workflow gave {res[1]!r}; sequential topological "
                                            f"evaluation (children first) gives {ref!r}"})
        counts = {u: log.count(u) for u in expect_calls}
        stray = [u for u in log if u not in expect_calls]
        if counts != expect_calls or stray:
            bad = {str(u): c for u, c in counts.items() if c != expect_calls[u]}
            mon.append({"cls": "nested-call-count", "what": f"[distributed, nested] calls per (graph, task) differing from exactly "
                                                            f"once: {bad}; call log {log}"})
    dup = U.shared_keys(dicts)
    if dup:
        mon.append({"cls": "dask-keys-shared-between-graphs",
                    "what": f"{len(dicts)} graphs were submitted to one scheduler; keys occurring in more than one: {dup[:6]}"})
    # ---- K: the model evaluates children first and hands a child's value to its caller as first static input
    if drv is not None:
        memo = {}

        def model_value(g):
            if g in memo:
                return memo[g]
            gr = graphs[g]
            tl = []
            for t in gr["tasks"]:
                st = [["s", lit(a)] for a in t[2]]      # the model's static inputs are opaque literals
                if str(t[0]) in gr["calls"]:
                    cv = model_value(gr["calls"][str(t[0])])
                    st = [["s", cv[1] if cv[0] == "ok" else "?"]] + st
                tl.append([t[0], bool(t[1]), st, t[3] if len(t) > 3 else t[0]])
            wt, wo = S(tl), S(wire_ops(gr["ops"]))
            if g == 0:
                m = drv.ask(["exec", wt, wo, 0])
                memo[g] = m[3] if isinstance(m, list) and len(m) > 3 else ["err", "bad-op"]
            else:
                memo[g] = drv.ask(["callexec", wt, wo, 0])
            return memo[g]
        m_res = model_value(0)
        if m_res != res:
            k.append(f"[nested] result: model {m_res} code {res}")
    return {"k": k, "mon": mon, "tags": tags, "nontrivial": len(reach) >= 2}


def _run_case(case, drv):
    rng = random.Random(case["seed"])
    k, mon, tags = [], [], []
    tasks = [list(t) for t in case["tasks"]]
    case_tasks = {"tasks": tasks}
    world = World(case_tasks)
    world.ctx = NullContext()
    ident = world.tid
    builders = {}
    alias = {}                   # builder -> {task id: id of the task insert_context put in its place}
    fresh = [CTX_BASE]           # ids of the tasks insert_context creates mid-history
    extra = {}                   # id -> [id, takes_ctx, static, name] of those tasks
    ops = []                     # the operations as performed (ids resolved), sent to the driver
    real_dumps = []

    def spec_of(i):
        return extra[i] if i in extra else world.spec[i]

    def nm(i):
        """name (= id of the original user task) of a task id"""
        return extra[i][3] if i in extra else world.name[i]

    def resolve(b, x):
        m = alias.get(b, {})
        while x in m:
            x = m[x]
        return x

    def resolved(op):
        kind, b = op[0], op[1]
        r = lambda x: resolve(b, x)
        if kind == "add":
            ps = op[3]
            return [kind, b, r(op[2]), [r(p) for p in ps] if isinstance(ps, list) else (None if ps is None else r(ps))]
        if kind == "replace":
            return [kind, b, r(op[2]), op[3]]
        if kind == "insert":
            ps = op[3]
            return [kind, b, op[2], [r(p) for p in ps] if isinstance(ps, list) else (None if ps is None else r(ps))]
        if kind == "ctx":
            return [kind, b, fresh[0]]
        return list(op)

    def apply(op):
        kind = op[0]
        err = None
        if kind == "new":
            builders[op[1]] = WorkflowBuilder(name=f"b{op[1]}")
        elif kind == "newtasks":
            builders[op[1]] = WorkflowBuilder(tasks=[world.task[t] for t in op[2]], name=f"b{op[1]}")
        elif kind == "add":
            ps = op[3]
            if isinstance(ps, list):
                ps = [world.task[p] for p in ps]
            elif ps is not None:
                ps = world.task[ps]
            builders[op[1]].add_task(world.task[op[2]], predecessors=ps)
        elif kind == "addouts":
            wb_ = builders[op[1]]
            wb_.add_task(world.task[op[2]], predecessors=wb_.output_tasks)
        elif kind == "replace":
            builders[op[1]].replace_task(world.task[op[2]], world.task[op[3]])
        elif kind == "insert":
            ps = op[3]
            if isinstance(ps, list):
                ps = [world.task[p] for p in ps]
            elif ps is not None:
                ps = world.task[ps]
            try:
                builders[op[1]].insert_workflow(builders[op[2]], predecessors=ps)
            except ValueError as e:
                err = "ValueError"
                if "N:M" not in str(e):
                    raise
        elif kind == "freeze":
            builders[op[1]] = WorkflowBuilder(Workflow(builders[op[2]]))
        elif kind == "plus":
            builders[op[1]] = builders[op[2]] + builders[op[3]]
        elif kind == "ctx":
            insert_context(builders[op[1]], world.ctx)
        elif kind == "read":
            pass
        else:
            raise ValueError(f"bad op {op}")
        return err

    def register_ctx_tasks(op, before_dump):
        """After insert_context on a builder: give ids to the Task objects it created, in node order, matching
        them to the declared replacements (same name and function, task_input == (context, *old input))."""
        b = op[1]
        olds = [int(x) for x in before_dump[0] if not x.startswith("?") and spec_of(int(x))[1]]
        want = {}
        for o in olds:
            want.setdefault(nm(o), []).append(o)
        for t in builders[b].tasks:
            if id(t) in world.ident:
                continue
            cands = want.get(name_id(t), [])
            o = cands.pop(0) if cands else None
            new = fresh[0]
            fresh[0] += 1
            world.ident[id(t)] = new
            world.task[new] = t
            if o is None:
                extra[new] = [new, False, [], name_id(t)]
                mon.append({"cls": "insert-context", "what": f"{op}: unexpected new task {t.name} with input {t.task_input!r}"})
                continue
            ot = world.task[o]
            extra[new] = [new, True, ["ctx"] + list(spec_of(o)[2]), nm(o)]
            alias.setdefault(b, {})[o] = new
            if t.function is not ot.function or len(t.task_input) != len(ot.task_input) + 1 or \
                    t.task_input[0] is not world.ctx or any(x is not y and x != y for x, y in zip(t.task_input[1:], ot.task_input)):
                mon.append({"cls": "insert-context", "what": f"{op}: task {t.name} has input {t.task_input!r}, declared "
                                                             f"(context, *{ot.task_input!r})"})
        return olds

    OPCLS = {"add": "builder-add-task", "addouts": "builder-add-task", "newtasks": "builder-add-task",
             "replace": "builder-replace-task", "insert": "builder-insert-workflow", "plus": "builder-plus",
             "freeze": "builder-copy", "new": "builder-add-task", "read": "builder-read-changes-graph",
             "ctx": "insert-context"}
    declared = {}                # builder -> (tasks, edges): the reference composition of the whole history

    def monitor_op(op, before, other, before_dump, other_dump, after_dump, err, ren):
        kind = op[0]
        n, e, e_p = sets_of(after_dump)
        border = before_dump[0]
        oorder = other_dump[0] if other_dump is not None else []
        xn, xe, refused, tag = declared_after(op, before[0], before[1], other[0], other[1], border, oorder, ren)
        if kind == "insert":
            if refused:
                tags.append("insert-refused")
                if err is None:
                    mon.append({"cls": "builder-insert-workflow", "what": f"{op}: N:M connection ({tag}) accepted"})
                elif (n, e) != (xn, xe):
                    mon.append({"cls": "insert-refused-but-composed",
                                "what": f"insert_workflow refused a {tag} connection (ValueError) but the "
                                        f"builder now holds {len(n)} tasks instead of {len(before[0])}"})
                return
            if err is not None:
                mon.append({"cls": "builder-insert-workflow", "what": f"{op}: {tag} connection refused"})
                return
            tags.append("insert-" + tag)
        if (n, e) != (xn, xe):
            mon.append({"cls": OPCLS[kind], "what": f"after {op}: tasks {sorted(n)} edges {sorted(e)}; declared tasks "
                                                    f"{sorted(xn)} edges {sorted(xe)}"})
        if e != e_p:
            mon.append({"cls": "builder-adjacency-inconsistent", "what": f"after {op}: successors {sorted(e)} and predecessors {sorted(e_p)} disagree"})

    def advance_declared(op, before_dump, other_dump, ren):
        """the same reference semantics applied to the DECLARED state (not to what the code produced so far)"""
        kind, b = op[0], op[1]
        src = op[2] if kind in ("freeze", "plus") else b
        dn, de = declared.get(src, (set(), set()))
        on, oe = declared.get(op[3] if kind == "plus" else op[2], (set(), set())) if kind in ("plus", "insert") else (set(), set())
        border = before_dump[0]
        oorder = other_dump[0] if other_dump is not None else []
        xn, xe, _, _ = declared_after(op, dn, de, on, oe, border, oorder, ren)
        declared[b] = (xn, xe)

    def do(op):
        op = resolved(op)
        b = op[1]
        if op[0] in ("read", "ctx", "addouts", "add", "replace", "insert") and b not in builders:
            return                                  # (shrunk cases) operation on a builder that does not exist
        if op[0] in ("insert",) and op[2] not in builders:
            return
        ops.append(op)
        src = op[2] if op[0] == "freeze" else b
        before_dump = graph_dump(builders[src], ident) if src in builders else [[], [], []]
        other_dump = None
        if op[0] == "insert":
            other_dump = graph_dump(builders[op[2]], ident)
        elif op[0] == "plus":
            before_dump = graph_dump(builders[op[2]], ident)
            other_dump = graph_dump(builders[op[3]], ident)
        err = apply(op)
        ctx_olds = register_ctx_tasks(op, before_dump) if op[0] == "ctx" else None
        if op[0] == "freeze":
            alias[b] = dict(alias.get(src, {}))
        elif op[0] in ("new", "newtasks"):
            alias[b] = {}
        elif op[0] == "plus":
            alias[b] = dict(alias.get(op[2], {}))
        after = graph_dump(builders[b], ident)
        bs = sets_of(before_dump)[:2]
        os_ = sets_of(other_dump)[:2] if other_dump is not None else (set(), set())
        ren = {str(o): str(resolve(b, o)) for o in ctx_olds} if ctx_olds is not None else {}
        monitor_op(op, bs, os_, before_dump, other_dump, after, err, ren)
        advance_declared(op, before_dump, other_dump, ren)
        if op[0] == "read":
            # input_tasks / output_tasks are the tasks without predecessors / successors, in node order
            ins = [str(ident(t)) for t in builders[b].input_tasks]
            outs = [str(ident(t)) for t in builders[b].output_tasks]
            if outs != sinks_of(after):
                mon.append({"cls": "output-tasks-not-sinks", "what": f"output_tasks of builder {b} is {outs}; the tasks "
                                                                     f"without successors are {sinks_of(after)}"})
            if ins != sources_of(after):
                mon.append({"cls": "input-tasks-not-sources", "what": f"input_tasks of builder {b} is {ins}; the tasks "
                                                                     f"without predecessors are {sources_of(after)}"})
            after = after + [ins, outs]
        real_dumps.append(["err", "ValueError", after] if err else after)
        tags.append("op:" + op[0])

    for op in case["ops"]:
        do(op)

    # close with one sink (decided on the graph itself: the tasks without successors)
    final = case["final"]
    if final not in builders:
        do(["new", final])
    wb = builders[final]
    cur_sinks = [int(x) for x in sinks_of(graph_dump(wb, ident)) if not x.startswith("?")]
    if case.get("close") and len(cur_sinks) != 1:
        outs = cur_sinks
        random.Random(case["close_shuffle"]).shuffle(outs)
        i = max([t[0] for t in tasks] + [-1]) + 1
        tasks.append([i, bool(case.get("close_ctx")), [["s", "z"]]])
        world.spec[i] = tasks[-1]
        world._make(i, tasks[-1][1], tasks[-1][2])
        do(["add", final, i, outs])
    do(["read", final])

    wt, wo = S(wire_tasks(case_tasks)), S(wire_ops(ops))
    if drv is not None:
        m = drv.ask(["build", wt, wo])
        if m == ["err", "bad-op"] or len(m) != len(real_dumps):
            k.append(f"build: driver answered {str(m)[:200]}")
        else:
            for j, (md, rd) in enumerate(zip(m, real_dumps)):
                if md and md[0] == "err":
                    mdump, wf_ok = md[2], md[2][5]
                    md_cmp = ["err", "ValueError", mdump[:len(rd[2])]]
                elif md and md[0] == "copy-literal-differs":
                    k.append(f"op #{j} {ops[j]}: model's closed-form copy differs from the literal networkx copy")
                    continue
                else:
                    wf_ok = md[5]
                    md_cmp = md[:len(rd)]
                if md_cmp != rd:
                    k.append(f"op #{j} {ops[j]}: model {md_cmp} code {rd}")
                    break
                if wf_ok != "true":
                    tags.append("model-graph-not-wellformed")

    # ---------------- execution
    wf = Workflow(wb)
    real_dump = graph_dump(wf, ident)
    rn, re_, _ = sets_of(real_dump)
    dn, de = declared.get(final, (set(), set()))
    # the reference is the DECLARED composition (tasks and edges of the whole history), listed in the order in
    # which the tasks entered the real workflow; when the code composed exactly that, it is the real graph
    if (rn, re_) != (dn, de):
        mon.append({"cls": "composed-workflow-differs-from-declared",
                    "what": f"after the {len(ops)} builder operations the workflow has tasks {sorted(rn)} edges {sorted(re_)}; "
                            f"the operations declare tasks {sorted(dn)} edges {sorted(de)}"})
    wnodes = [int(x) for x in order_list(dn, real_dump[0])]
    wpreds = {t: [int(u) for u, v in de if v == str(t)] for t in wnodes}
    order = topo_order(wnodes, wpreds)
    has_succ = {int(u) for u, _ in de}
    sinks = [t for t in wnodes if t not in has_succ]
    real_sinks = sinks_of(real_dump)

    class _Spec(dict):
        def __missing__(self, i):
            return spec_of(i)
    spec = _Spec()
    tags.append(f"n={len(wnodes)}")
    tags.append(f"sinks={min(len(sinks), 3)}")
    if order is None:
        tags.append("cyclic")
    maxpred = max([len(v) for v in wpreds.values()] + [0])
    tags.append(f"maxpreds={min(maxpred, 4)}")
    haz = any(hazardous(spec[t][2]) for t in wnodes)
    if haz:
        tags.append("hazard-static")
    pos = {t: j for j, t in enumerate(wnodes)}
    ctx_inv = any(pos[p] < pos[q] and spec[p][1] and not spec[q][1]
                  for t in wnodes for p in wpreds[t] for q in wpreds[t])
    if ctx_inv:
        tags.append("ctx-pred-before-plain-pred")
    nontrivial = len(wnodes) >= 3 and maxpred >= 2

    # reference: sequential evaluation in topological order, literal static inputs, then predecessor
    # results in the order in which the predecessors entered the workflow (node order of wf)
    ref = ref_realised = None
    if order is not None and len(sinks) == 1:
        def seq_eval(key):
            val = {}
            for t in order:
                args = (["ctx"] if spec[t][1] else []) + [world.literal(s) for s in spec[t][2]]
                args += [val[p] for p in sorted(wpreds[t], key=key)]
                val[t] = f"t{nm(t)}(" + ",".join(args) + ")"
            return val[sinks[0]]
        ref = seq_eval(lambda p: pos[p])
        # what the unchanged code realises (theorem pred_order_after_relabel): context-taking tasks stably last
        ref_realised = seq_eval(lambda p: (bool(spec[p][1]), pos[p]))

    ctx = world.ctx
    results = {}
    model_exec = None
    if drv is not None:
        model_exec = drv.ask(["exec", wt, wo, final])
        if model_exec == ["err", "bad-op"]:
            k.append("exec: driver answered bad-op")
            model_exec = None
    first_capture = None
    for sched in case["scheds"]:
        world.log.clear()
        world.glog.clear()
        world.delay = random.Random(int(sched.split(":")[1])) if sched.startswith("delay") else None
        disp = CapturingDispatcher()
        try:
            with patched_scheduler(sched):
                res = ["ok", execute_workflow(wf, dispatcher=disp, context=ctx)]
        except Exception as e:  # noqa: an exception of the real code is an observation, not a harness error
            if type(e).__name__ in ("CaseTimeout", "Timeout"):
                raise                                # the runner's own watchdog signals: never an observation
            if isinstance(e, ValueError) and "Workflow can only have one output task" in str(e):
                res = ["err", "ValueError"]
            elif isinstance(e, RuntimeError) and "Cycle detected" in str(e):
                res = ["err", "RuntimeError"]
            else:
                res = ["err", type(e).__name__]
                mon.append({"cls": "execute-raised", "what": f"[{sched}] execute_workflow raised {type(e).__name__}: {str(e)[:200]}"})
        results[sched] = res
        tags.append("sched:" + sched.split(":")[0])
        log = list(world.log)
        # ---- monitors on this run
        if len(sinks) != 1:
            if res != ["err", "ValueError"] and len(real_sinks) != 1:
                mon.append({"cls": "sink-count-not-refused", "what": f"{len(real_sinks)} output tasks but execute_workflow gave {res}"})
            elif res != ["err", "ValueError"]:
                mon.append({"cls": "composed-workflow-differs-from-declared",
                            "what": f"[{sched}] the declared workflow has {len(sinks)} output tasks (refusal expected), execute_workflow gave {res}"})
        elif order is None:
            tags.append("exec-cyclic:" + res[0])
        else:
            cls = None
            if res != ["ok", ref]:
                cls = ("static-input-graph-literal" if haz else
                       "pred-order-context-task-moved" if ctx_inv and res == ["ok", ref_realised]
                       else "result-differs-from-topological-eval")
                mon.append({"cls": cls, "what": f"[{sched}] execute_workflow gave {res}, sequential topological "
                                                f"evaluation gives {ref!r}"})
            if res[0] == "ok":
                mult = {}
                for t in wnodes:
                    mult[nm(t)] = mult.get(nm(t), 0) + 1
                counts = {n_: log.count(n_) for n_ in mult}
                if counts != mult or len(log) != len(wnodes):
                    mon.append({"cls": "call-count", "what": f"[{sched}] calls per task name {counts}, declared tasks per name "
                                                             f"{mult}, call log {log} (every declared task exactly once, nothing else)"})
                at = {t: j for j, t in enumerate(log)}
                for t in wnodes:
                    if mult[nm(t)] != 1 or any(mult[nm(p)] != 1 for p in wpreds[t]):
                        continue                     # tasks equal by value are indistinguishable in the call log
                    if any(at.get(nm(p), 1 << 30) > at.get(nm(t), -1) for p in wpreds[t]) and nm(t) in at:
                        mon.append({"cls": "ran-before-predecessor", "what": f"[{sched}] task {nm(t)} ran at {at[nm(t)]} before a predecessor; log {log}"})
                        break
                if not haz and world.glog:
                    mon.append({"cls": "call-count", "what": "a callable that is no task was called"})
        # ---- K on this run
        if model_exec is not None:
            m_nodes, m_preds, m_dict, m_res, m_order, m_spec, m_haz = model_exec
            if res != m_res:
                k.append(f"[{sched}] result: model {m_res} code {res}")
            if disp.wf is not None and first_capture is None:
                first_capture = disp.wf
                ewf = disp.wf
                e_nodes = [str(name_id(t)) for t in ewf.tasks]
                e_preds = [[str(name_id(t)), [str(name_id(p)) for p in ewf.get_predecessors(t)]] for t in ewf.tasks]
                if e_nodes != m_nodes or e_preds != m_preds:
                    k.append(f"executed workflow: model nodes {m_nodes} preds {m_preds}; code nodes {e_nodes} preds {e_preds}")
                if len(real_sinks) == 1:
                    code_dict = canon_dict(ewf.as_dask_dict(), ewf, world)
                    if m_dict[0] != "ok" or sorted(m_dict[1:], key=repr) != code_dict:
                        k.append(f"dask dict: model {m_dict} code {code_dict}")
            if res[0] == "ok" and drv is not None and len(real_sinks) == 1:
                rp = drv.ask(["replay", wt, wo, final, S(log)])
                if rp != res:
                    k.append(f"[{sched}] observed firing order {log} replayed in the abstract scheduler: {rp}, code {res}")
                if m_haz != ("true" if haz else "false"):
                    k.append(f"hazard flag: model {m_haz} harness {haz}")
                if ref is not None and m_spec != ["ok", ref]:
                    k.append(f"topoEval: model {m_spec} harness reference {ref!r}")
    ok_results = {tuple(r) for r in results.values()}
    if len(ok_results) > 1 and len(sinks) == 1 and order is not None:
        mon.append({"cls": "schedule-dependent", "what": f"results differ between schedulers: {results}"})

    # ---------------- the dict of the call_workflow path (WorkflowBuilder(wf); insert_context; Workflow(wb))
    if len(real_sinks) == 1 and (rn, re_) == (dn, de):
        wb2 = WorkflowBuilder(wf)
        insert_context(wb2, ctx)
        wf2 = Workflow(wb2)
        code_dict = canon_dict(wf2.as_dask_dict(), wf2, world)
        tags.append("q:call-dict")
        if drv is not None:
            m = drv.ask(["call", wt, wo, final])
            if m[0] != "ok" or sorted(m[1:], key=repr) != code_dict:
                k.append(f"call_workflow dict: model {m} code {code_dict}")
        # monitor dask_dict_faithful on the real dict
        problems = check_dict(wf2, wf2.as_dask_dict())
        if problems:
            mon.append({"cls": "dask-dict-unfaithful", "what": problems})
        # insert_context: exactly the context-taking tasks got the context prepended, same tasks and edges otherwise
        def shape(name, inputs):
            out = []
            for x in inputs:
                try:
                    out.append(S(world.wire_static(x)))
                except Exception:
                    out.append(["?", repr(x)])
            return repr([name, out])
        got = sorted(shape(name_id(t), t.task_input) for t in wf2.tasks)
        want = sorted(shape(nm(t), ([ctx] if spec[t][1] else []) + [world.py_static(s_) for s_ in spec[t][2]]) for t in wnodes)
        if got != want:
            mon.append({"cls": "insert-context", "what": f"tasks (name, input) after insert_context {got}, declared {want}"})
        e2 = {(name_id(p), name_id(t)) for t in wf2.tasks for p in wf2.get_predecessors(t)}
        e0 = {(nm(p), nm(t)) for t in wnodes for p in wpreds[t]}
        if e2 != e0 or sorted(name_id(t) for t in wf2.tasks) != sorted(nm(t) for t in wnodes):
            mon.append({"cls": "insert-context", "what": f"edges after insert_context {sorted(e2)}, before {sorted(e0)}"})
    return {"k": k, "mon": mon, "tags": tags, "nontrivial": nontrivial}


def _split(candidates, args, dsk):
    fits = []
    for ti in candidates:
        n = len(ti)
        if n <= len(args) and all(x is y or x == y for x, y in zip(args[:n], ti)) and \
                all(isinstance(x, str) and x in dsk for x in args[n:]):
            fits.append(n)
    return max(fits) if fits else 0


def canon_dict(dsk, wf, world):
    """dask dict -> sorted [[key, fn, [static...], [pred keys...]]] with keys canonicalised to task names.
    Total: anything unexpected is kept as a marked repr so that it shows up as a disagreement, not a crash."""
    inputs_of = {}
    for t in wf.tasks:
        inputs_of.setdefault(t.name, []).append(tuple(t.task_input))

    def split(name, args):
        """number of static inputs of a dict value: that of a task of this name whose task_input is the prefix of
        the arguments and after which only keys follow (tasks of one name may differ in arity after insert_context)"""
        return _split(inputs_of.get(name, []), args, dsk)

    def ck(key):
        if key == "results":
            return "results"
        try:
            return str(int(str(key)[:-37][1:]))
        except ValueError:
            return "?" + repr(key)

    def ws(x):
        try:
            return S(world.wire_static(x))
        except Exception:
            return ["?", repr(x)]
    out = []
    for key, val in dsk.items():
        fn = val[0]
        name = getattr(fn, "__name__", "?")
        ns = split(name, list(val[1:]))
        static = [ws(x) for x in val[1:1 + ns]]
        preds = [ck(x) for x in val[1 + ns:]]
        out.append([ck(key), name[1:], static, preds])
    return sorted(out, key=repr)


def check_dict(wf, dsk):
    """dask_dict_faithful on the real dict: one key per task, the output task's key is 'results', every value is
    (function, *static inputs, *keys of the predecessors in predecessor order).  Tasks may be equal by value
    (same name, function, static inputs), so keys and tasks are matched through their unfolded terms
    fn(static…, term(pred)…): the multisets of terms must coincide and 'results' must unfold to the sink's term."""
    tasks = wf.tasks
    if len(dsk) != len(tasks):
        return f"{len(dsk)} keys for {len(tasks)} tasks"
    if "results" not in dsk:
        return "no 'results' key"
    by_id = {id(t): t for t in tasks}

    def unfold(node, succ, memo, stack):
        if node in memo:
            return memo[node]
        if node in stack:
            raise RecursionError("cycle")
        stack.add(node)
        fn, static, preds = succ(node)
        r = f"{getattr(fn, '__name__', fn)}@{id(fn)}(" + ",".join([repr(x) for x in static] + [unfold(p, succ, memo, stack) for p in preds]) + ")"
        stack.discard(node)
        memo[node] = r
        return r

    def task_parts(tid_):
        t = by_id[tid_]
        return t.function, list(t.task_input), [id(p) for p in wf.get_predecessors(t)]

    try:
        tmemo = {}
        task_terms = {id(t): unfold(id(t), task_parts, tmemo, set()) for t in tasks}
    except RecursionError:
        return None                                  # cyclic workflow: nothing to unfold
    # keys: the number of static inputs of a key is that of any task with the same function (equal for value-equal tasks)
    nstatic = {}
    for t in tasks:
        nstatic.setdefault(id(t.function), []).append(tuple(t.task_input))

    def key_parts2(key):
        val = dsk[key]
        args = list(val[1:])
        if id(val[0]) not in nstatic:
            raise KeyError(key)
        n = _split(nstatic[id(val[0])], args, dsk)
        return val[0], args[:n], args[n:]
    try:
        kmemo = {}
        key_terms = {k: unfold(k, key_parts2, kmemo, set()) for k in dsk}
    except (RecursionError, KeyError) as e:
        return f"dict does not unfold: {type(e).__name__} {e}"
    if sorted(key_terms.values()) != sorted(task_terms.values()):
        extra = sorted(set(key_terms.values()) - set(task_terms.values()))[:2]
        missing = sorted(set(task_terms.values()) - set(key_terms.values()))[:2]
        return f"dict entries and tasks differ: entries without task {extra}, tasks without entry {missing}"
    sinks = [t for t in tasks if not wf.get_successors(t)]
    if len(sinks) == 1 and key_terms["results"] != task_terms[id(sinks[0])]:
        return "the output task's key is not 'results'"
    return None
