"""C17 — Workflows execute as their task graph specifies.

K   : Lean model (PharmpyModel/C17/{Graph,Model,Sched}.lean) vs the real
      WorkflowBuilder / Workflow / insert_context / execute_workflow on seeded programs of
      builder operations: the graph after EVERY operation (node order, successor and
      predecessor orders, input/output tasks), the workflow execute_workflow hands to the
      dispatcher, the dask dict, the dict of the call_workflow path, the result term, and a
      replay of every OBSERVED firing order of dask in the abstract scheduler of the model.
Mon : the property statement on the real code: result == sequential topological evaluation
      with (static inputs, predecessor results in entering order), every task called exactly
      once and after its predecessors, same result under every scheduler; every builder
      operation yields exactly the declared task and edge sets.
"""
from __future__ import annotations

import os
import random

ID = "C17"
DRIVER = "drv_c17"
LEAN_TARGETS = ["PharmpyProofs.C17.Properties", "drv_c17"]
PROPERTIES = ["PharmpyProofs/C17/Properties.lean"]
LEAN_SOURCES = ["PharmpyModel/C17/*.lean", "PharmpyProofs/C17/*.lean", "Drivers/C17.lean"]
TIME_LIMIT = {"quick": 900, "thorough": 3000}
CASE_CPU_LIMIT = 30
RULE = ("seeded programs of builder operations (new/tasks=, add_task with 0-3 predecessors in random order, "
        "replace_task, insert_workflow with None/explicit predecessors incl. N:N, 1:N, N:1, N:M, "
        "+, Workflow()/WorkflowBuilder() copies) building a workflow of <= 12 tasks (quick) / <= 30 (thorough), "
        "usually closed with one sink; task i returns the term 't<i>(args)' so the result spells the whole "
        "evaluation; ~35% of tasks take `context`; a few static inputs are dask graph literals ('results', "
        "(callable, ...), lists of those). Each workflow is executed through execute_workflow with "
        "dask.threaded.get, dask.get, dask.get under 2 seeded random priorities, and threaded with seeded delays. "
        "non-trivial = executed workflow with >= 3 tasks and a task with >= 2 predecessors; distinct = distinct case JSON")
TRUSTED = [
    "Lean 4.33 kernel; axioms propext, Quot.sound, Classical.choice only (audited per theorem each run)",
    "hand-written model PharmpyModel/C17 tied to workflow.py/execute.py by the correspondence run of this invocation",
    "networkx 3.6.1 order semantics (insertion-ordered dicts; relabel_nodes(copy=False), compose, copy) as modelled in "
    "Graph.lean and compared after every builder operation",
    "dask: get fires each needed key once after the keys it mentions (abstract scheduler; every observed firing order "
    "is replayed in the model); graph-literal rules for str/tuple/list static inputs",
    "harness/corr/c17.py (generator, term-building task family, canonicalisation by task name)",
    "the distributed dispatcher (LocalCluster/Client.get, optimize_task_graph_for_dask_distributed) is outside: no cluster here",
]
ASSUMPTIONS = [
    "task functions are pure; Task objects compare by identity (nodes are numbered by the harness)",
    "uuid4 keys never collide and never equal a static input string; 'results' is the only nameable key",
    "the order in which predecessor tasks 'entered the workflow' is the node order of the Workflow passed to execute_workflow",
]


def budget(tier):
    return int(os.environ.get("VERIF_BUDGET", 0)) or {"quick": 8000, "thorough": 60000}[tier]


# ---------------------------------------------------------------- generation

def gen_static(rng: random.Random, hazard: bool, counter):
    out = []
    for _ in range(rng.choice([0, 0, 1, 1, 2])):
        counter[0] += 1
        out.append(["s", f"s{counter[0]}"])
    if hazard:
        r = rng.random()
        if r < 0.3:
            h = ["s", "results"]
        elif r < 0.6:
            h = ["call", rng.randint(0, 3)] + [f"a{rng.randint(0, 9)}" for _ in range(rng.randint(0, 2))]
        elif r < 0.8:
            h = ["list", ["s", "x"], ["call", rng.randint(0, 3), "b"]]
        elif r < 0.9:
            h = ["list", ["s", "results"]]
        else:
            h = ["list", ["s", "p"], ["s", "q"]]   # harmless list
        out.insert(rng.randint(0, len(out)), h)
    return out


def gen_case(rng: random.Random, tier: str):
    maxn = 12 if tier == "quick" else 30
    target = rng.randint(1, maxn)
    wild = rng.random() < 0.03
    hazard_case = rng.random() < 0.06
    pctx = rng.choice([0.0, 0.2, 0.35, 0.5, 1.0])
    tasks = []
    counter = [0]

    def new_task():
        i = len(tasks)
        hz = hazard_case and rng.random() < 0.25
        tasks.append([i, rng.random() < pctx, gen_static(rng, hz, counter)])
        return i

    ops = []
    members = {0: []}            # builder -> task ids (approximate bookkeeping for choosing arguments)
    nb = [1]

    def pick_preds(pool, kmax=3):
        k = rng.randint(0, min(kmax, len(pool)))
        return rng.sample(pool, k)

    def build_sub(size):
        b = nb[0]
        nb[0] += 1
        ts = [new_task() for _ in range(size)]
        nroots = rng.randint(1, size)
        if rng.random() < 0.5:
            ops.append(["newtasks", b, ts[:nroots]])
        else:
            ops.append(["new", b])
            for t in ts[:nroots]:
                ops.append(["add", b, t, None])
        for j in range(nroots, size):
            ops.append(["add", b, ts[j], pick_preds(ts[:j], 2)])
        members[b] = ts
        return b

    # initial content of builder 0
    if rng.random() < 0.5:
        n0 = rng.randint(1, 3)
        ts = [new_task() for _ in range(n0)]
        ops.append(["newtasks", 0, ts])
        members[0] = ts[:]
    else:
        ops.append(["new", 0])
    while len(tasks) < target:
        cur = members[0]
        r = rng.random()
        if r < 0.45 or not cur:
            t = new_task()
            ps = pick_preds(cur)
            if wild and rng.random() < 0.3:
                ps = ps + [rng.randrange(len(tasks))]
            if len(ps) == 1 and rng.random() < 0.5:
                ops.append(["add", 0, t, ps[0]])          # non-list predecessor
            else:
                ops.append(["add", 0, t, ps if (ps or rng.random() < 0.5) else None])
            members[0] = cur + [t] + [p for p in ps if p not in cur and p != t]
        elif r < 0.70:
            size = rng.randint(1, max(1, min(4, target - len(tasks))))
            b = build_sub(size)
            if rng.random() < 0.4:
                ops.append(["freeze", b, b])
            mode = rng.random()
            if mode < 0.5:
                ps = None
            elif mode < 0.7:
                ps = rng.choice(cur)                       # non-list predecessor
            else:
                ps = rng.sample(cur, rng.randint(1, min(3, len(cur))))
            ops.append(["insert", 0, b, ps])
            members[0] = cur + members[b]
        elif r < 0.80:
            old = rng.choice(cur)
            if wild and rng.random() < 0.5:
                new = rng.randrange(len(tasks))
            else:
                new = new_task()
            ops.append(["replace", 0, old, new])
            members[0] = [new if x == old else x for x in cur]
        elif r < 0.88:
            size = rng.randint(1, max(1, min(3, target - len(tasks))))
            b = build_sub(size)
            ops.append(["plus", 0, 0, b])
            members[0] = cur + members[b]
        elif r < 0.94:
            ops.append(["freeze", 0, 0])
        else:
            # more edges into an existing task, from tasks that entered earlier (keeps a DAG)
            j = rng.randrange(len(cur))
            pool = cur[:j] if not wild else cur
            if pool:
                ops.append(["add", 0, cur[j], pick_preds(pool, 2) or None])
    closes = rng.random() < 0.93
    scheds = ["threaded", "sync", f"rand:{rng.randrange(1 << 30)}", f"rand:{rng.randrange(1 << 30)}"]
    if rng.random() < 0.25:
        scheds.append(f"delay:{rng.randrange(1 << 30)}")
    return {"tasks": tasks, "ops": ops, "final": 0, "close": closes, "close_ctx": rng.random() < pctx,
            "close_shuffle": rng.randrange(1 << 30), "scheds": scheds, "seed": rng.randrange(1 << 30)}


def gen_cases(rng: random.Random, n: int, tier: str):
    return [gen_case(rng, tier) for _ in range(n)]


def corpus_cases():
    S = lambda x: ["s", x]
    base = {"final": 0, "close": False, "close_ctx": False, "close_shuffle": 1,
            "scheds": ["threaded", "sync", "rand:1"], "seed": 1}
    return [
        # predecessors declared [0,1], node order 1,0: argument order is node order
        dict(base, tasks=[[0, False, [S("s0")]], [1, False, []], [2, False, [S("k")]]],
             ops=[["new", 0], ["add", 0, 1, None], ["add", 0, 0, None], ["add", 0, 2, [0, 1]]]),
        # the same with a context-taking first predecessor: it is moved behind the other one
        dict(base, tasks=[[0, False, [S("s0")]], [1, True, []], [2, False, [S("k")]]],
             ops=[["new", 0], ["add", 0, 1, None], ["add", 0, 0, None], ["add", 0, 2, [0, 1]]]),
        # F7: a static str equal to the key 'results' -> dask cycle
        dict(base, tasks=[[0, False, [S("results")]], [1, False, []]],
             ops=[["newtasks", 0, [0]], ["add", 0, 1, [0]]]),
        # F7: a static tuple headed by a callable is executed
        dict(base, tasks=[[0, False, [["call", 1, "a"]]], [1, False, [["list", S("x"), ["call", 2, "b"]]]]],
             ops=[["newtasks", 0, [0]], ["add", 0, 1, [0]]]),
        # insert_workflow N:M refusal must leave the builder unchanged (was composed before fix f697869)
        dict(base, tasks=[[i, False, []] for i in range(5)],
             ops=[["newtasks", 0, [0, 1]], ["newtasks", 1, [2, 3, 4]], ["insert", 0, 1, None]], close=True),
        # map-reduce of tests/workflows/test_execute.py
        dict(base, tasks=[[i, False, [S(f"v{i}")] if i < 3 else []] for i in range(7)],
             ops=[["newtasks", 0, [0, 1, 2]], ["newtasks", 1, [3, 4, 5]], ["insert", 0, 1, None],
                  ["newtasks", 2, [6]], ["insert", 0, 2, None]]),
        # two sinks: documented refusal
        dict(base, tasks=[[0, False, []], [1, False, []]], ops=[["newtasks", 0, [0, 1]]]),
    ]


def shrink(case):
    ops = case["ops"]
    for i in range(len(ops) - 1, 0, -1):
        c = dict(case)
        c["ops"] = ops[:i] + ops[i + 1:]
        yield c
    if len(case["scheds"]) > 1:
        for s in case["scheds"]:
            c = dict(case)
            c["scheds"] = [s]
            yield c
    for k, t in enumerate(case["tasks"]):
        if t[2]:
            for j in range(len(t[2])):
                c = dict(case)
                c["tasks"] = [list(x) for x in case["tasks"]]
                c["tasks"][k][2] = t[2][:j] + t[2][j + 1:]
                yield c
        if t[1]:
            c = dict(case)
            c["tasks"] = [list(x) for x in case["tasks"]]
            c["tasks"][k][1] = False
            yield c


# ---------------------------------------------------------------- real-code side

def worker_init():
    global pharmpy, Task, Workflow, WorkflowBuilder, execute_workflow, insert_context, NullContext, local_dask
    global dask, time, tempfile
    import tempfile
    import time

    import dask  # noqa
    import dask.local  # noqa
    import dask.threaded  # noqa
    import pharmpy.workflows.dispatchers  # noqa
    from pharmpy.workflows import Task, Workflow, WorkflowBuilder, execute_workflow, local_dask  # noqa
    from pharmpy.workflows.contexts import NullContext  # noqa
    from pharmpy.workflows.workflow import insert_context  # noqa
    pharmpy.workflows.dispatchers.conf.dask_dispatcher = "threaded"


def render(x):
    if isinstance(x, str):
        return x
    if isinstance(x, list):
        return "[" + ",".join(render(y) for y in x) + "]"
    if isinstance(x, tuple):
        return "<" + ",".join(render(y) for y in x) + ">"
    if isinstance(x, NullContext):
        return "ctx"
    if callable(x):
        return x.__name__
    return repr(x)


class World:
    """The Task objects of one case, the call log and the spliceable callables g<j>."""

    def __init__(self, case):
        self.log = []
        self.glog = []
        self.delay = None
        self.gs = {}
        self.task = {}
        self.ident = {}
        self.spec = {t[0]: t for t in case["tasks"]}
        for i, ctx, static in case["tasks"]:
            self._make(i, ctx, static)

    def g(self, j):
        if j not in self.gs:
            def gf(*a, _j=j):
                self.glog.append(_j)
                return f"g{_j}(" + ",".join(render(x) for x in a) + ")"
            gf.__name__ = f"g{j}"
            self.gs[j] = gf
        return self.gs[j]

    def py_atom(self, a):
        if a == "ctx":
            raise ValueError("ctx is not a user-level static input")
        if a[0] == "s":
            return a[1]
        if a[0] == "call":
            return (self.g(a[1]), *a[2:])
        raise ValueError(a)

    def py_static(self, s):
        if isinstance(s, list) and s and s[0] == "list":
            return [self.py_atom(a) for a in s[1:]]
        return self.py_atom(s)

    def _make(self, i, ctx, static):
        world = self
        if ctx:
            def f(context, *a, _i=i):
                if world.delay is not None:
                    time.sleep(world.delay.random() * 0.003)
                world.log.append(_i)
                return f"t{_i}(" + ",".join(render(x) for x in (context,) + a) + ")"
        else:
            def f(*a, _i=i):
                if world.delay is not None:
                    time.sleep(world.delay.random() * 0.003)
                world.log.append(_i)
                return f"t{_i}(" + ",".join(render(x) for x in a) + ")"
        f.__name__ = f"t{i}"
        t = Task(f"t{i}", f, *[self.py_static(s) for s in static])
        self.task[i] = t
        self.ident[id(t)] = i

    def tid(self, t):
        return self.ident[id(t)]

    def wire_atom(self, x):
        if isinstance(x, str):
            return ["s", x]
        if isinstance(x, NullContext):
            return "ctx"
        if isinstance(x, tuple) and x and callable(x[0]):
            return ["call", str(int(x[0].__name__[1:]))] + list(x[1:])
        raise ValueError(f"unexpected static input {x!r}")

    def wire_static(self, x):
        if isinstance(x, list):
            return ["list"] + [self.wire_atom(a) for a in x]
        return self.wire_atom(x)

    def literal(self, s):
        """The property's reading of a declared static input (rendered)."""
        return render(self.py_static(s))


def name_id(task):
    return int(task.name[1:])


def graph_dump(wb, ident):
    """Observable state through the public API (tasks, get_successors, get_predecessors, input/output_tasks)."""
    ts = wb.tasks
    return [[str(ident(t)) for t in ts],
            [[str(ident(t)), [str(ident(s)) for s in wb.get_successors(t)]] for t in ts],
            [[str(ident(t)), [str(ident(s)) for s in wb.get_predecessors(t)]] for t in ts],
            [str(ident(t)) for t in wb.input_tasks],
            [str(ident(t)) for t in wb.output_tasks]]


def sets_of(dump):
    nodes = set(dump[0])
    edges = {(u, v) for u, vs in dump[1] for v in vs}
    edges_p = {(u, v) for v, us in dump[2] for u in us}
    return nodes, edges, edges_p


def as_list(ps):
    if ps is None:
        return None
    return ps if isinstance(ps, list) else [ps]


def expected_sets(op, before, other, real_ins=None):
    """Declared task and edge sets after a builder operation (the monitor's oracle).
    before/other: (nodes, edges) as sets of strings. Returns (nodes, edges, refusal)."""
    kind = op[0]
    n, e = set(before[0]), set(before[1])
    if kind in ("new",):
        return set(), set(), False
    if kind == "newtasks":
        return {str(t) for t in op[2]}, set(), False
    if kind == "add":
        t = str(op[2])
        ps = as_list(op[3]) or []
        return n | {t} | {str(p) for p in ps}, e | {(str(p), t) for p in ps}, False
    if kind == "replace":
        o, w = str(op[2]), str(op[3])
        if o not in n:
            return n, e, False
        r = lambda x: w if x == o else x
        return {r(x) for x in n}, {(r(u), r(v)) for u, v in e}, False
    if kind in ("plus",):
        return n | other[0], e | other[1], False
    if kind == "freeze":
        return n, e, False
    if kind == "insert":
        on, oe = other
        return n | on, e | oe, None       # connecting edges are added by the caller (needs orders)
    raise ValueError(kind)


def topo_order(nodes, preds):
    placed, out = set(), []
    progress = True
    while progress:
        progress = False
        for t in nodes:
            if t not in placed and all(p in placed for p in preds[t]):
                placed.add(t)
                out.append(t)
                progress = True
    return out if len(out) == len(nodes) else None


def hazardous(static):
    def at(a):
        return a != "ctx" and ((a[0] == "s" and a[1] == "results") or a[0] == "call")
    for s in static:
        if isinstance(s, list) and s and s[0] == "list":
            if any(at(a) for a in s[1:]):
                return True
        elif at(s):
            return True
    return False


class CapturingDispatcher:
    def __init__(self):
        self.wf = None

    def run(self, workflow, context):
        self.wf = workflow
        return local_dask.run(workflow, context)


class patched_scheduler:
    """dask.threaded.get replaced by the synchronous scheduler, optionally with seeded random priorities."""

    def __init__(self, kind):
        self.kind = kind

    def __enter__(self):
        self.old_get = dask.threaded.get
        self.old_order = dask.local.order
        if self.kind.startswith("sync") or self.kind.startswith("rand"):
            dask.threaded.get = dask.local.get_sync
        if self.kind.startswith("rand"):
            r = random.Random(int(self.kind.split(":")[1]))
            real_order = self.old_order

            def order(dsk, *a, **kw):
                o = real_order(dsk, *a, **kw)
                keys = sorted(o, key=str)
                prio = list(range(len(keys)))
                r.shuffle(prio)
                return dict(zip(keys, prio))
            dask.local.order = order
        return self

    def __exit__(self, *a):
        dask.threaded.get = self.old_get
        dask.local.order = self.old_order


def S(x):
    """nested ints -> strings, None -> 'none' (the form parsed driver answers have)."""
    if isinstance(x, (list, tuple)):
        return [S(y) for y in x]
    if x is None:
        return "none"
    if isinstance(x, bool):
        return "true" if x else "false"
    return str(x)


def wire_tasks(case):
    return [[i, bool(c), st] for i, c, st in case["tasks"]]


def wire_ops(ops):
    out = []
    for op in ops:
        if op[0] in ("add", "insert"):
            ps = as_list(op[3])
            out.append([op[0], op[1], op[2], "none" if ps is None else ps])
        else:
            out.append(list(op))
    return out


def run_case(case, drv):
    """run() of the local dispatcher makes a TemporaryDirectory and chdirs into it: keep it under the
    scratch root (never /tmp) and remove the scratch root after the case."""
    import shutil

    from harness.common.paths import scratch_root
    root = scratch_root()
    old_tmp = tempfile.tempdir
    tempfile.tempdir = str(root)
    try:
        return _run_case(case, drv)
    finally:
        tempfile.tempdir = old_tmp
        shutil.rmtree(root, ignore_errors=True)


def _run_case(case, drv):
    rng = random.Random(case["seed"])
    k, mon, tags = [], [], []
    tasks = [list(t) for t in case["tasks"]]
    case_tasks = {"tasks": tasks}
    world = World(case_tasks)
    ident = world.tid
    builders = {}
    ops = [list(op) for op in case["ops"]]
    real_dumps = []

    def apply(op):
        kind = op[0]
        err = None
        if kind == "new":
            builders[op[1]] = WorkflowBuilder(name=f"b{op[1]}")
        elif kind == "newtasks":
            builders[op[1]] = WorkflowBuilder(tasks=[world.task[t] for t in op[2]], name=f"b{op[1]}")
        elif kind == "add":
            ps = op[3]
            if isinstance(ps, list):
                ps = [world.task[p] for p in ps]
            elif ps is not None:
                ps = world.task[ps]
            builders[op[1]].add_task(world.task[op[2]], predecessors=ps)
        elif kind == "replace":
            builders[op[1]].replace_task(world.task[op[2]], world.task[op[3]])
        elif kind == "insert":
            ps = op[3]
            if isinstance(ps, list):
                ps = [world.task[p] for p in ps]
            elif ps is not None:
                ps = world.task[ps]
            try:
                builders[op[1]].insert_workflow(builders[op[2]], predecessors=ps)
            except ValueError as e:
                err = "ValueError"
                if "N:M" not in str(e):
                    raise
        elif kind == "freeze":
            builders[op[1]] = WorkflowBuilder(Workflow(builders[op[2]]))
        elif kind == "plus":
            builders[op[1]] = builders[op[2]] + builders[op[3]]
        else:
            raise ValueError(f"bad op {op}")
        return err

    def monitor_op(op, before, other, before_dump, other_dump, after_dump, err):
        kind = op[0]
        n, e, e_p = sets_of(after_dump)
        if e != e_p:
            mon.append({"cls": "builder-adjacency-inconsistent", "what": f"after {op}: successors and predecessors disagree"})
        xn, xe, _ = expected_sets(op, before, other)
        if kind == "insert":
            outs = [str(p) for p in as_list(op[3])] if op[3] is not None else before_dump[4]
            ins = other_dump[3]
            if len(ins) == len(outs):
                conn = {(o, i) for i, o in zip(ins, outs)}
            elif len(ins) == 1:
                conn = {(o, ins[0]) for o in outs}
            elif len(outs) == 1:
                conn = {(outs[0], i) for i in ins}
            else:
                conn = None
            if conn is None:
                if err is None:
                    mon.append({"cls": "builder-insert-workflow", "what": f"{op}: N:M connection ({len(outs)}:{len(ins)}) accepted"})
                elif (n, e) != (set(before[0]), set(before[1])):
                    mon.append({"cls": "insert-refused-but-composed",
                                "what": f"insert_workflow refused a {len(outs)}:{len(ins)} connection (ValueError) but the "
                                        f"builder now holds {len(n)} tasks instead of {len(before[0])}"})
                tags.append("insert-refused")
                return
            if err is not None:
                mon.append({"cls": "builder-insert-workflow", "what": f"{op}: {len(outs)}:{len(ins)} connection refused"})
                return
            xe = xe | conn
            xn = xn | {x for c in conn for x in c}
            tags.append("insert-" + ("N:N" if len(ins) == len(outs) else "N:1" if len(ins) == 1 else "1:N"))
        if (n, e) != (xn, xe):
            cls = {"add": "builder-add-task", "newtasks": "builder-add-task", "replace": "builder-replace-task",
                   "insert": "builder-insert-workflow", "plus": "builder-plus", "freeze": "builder-copy",
                   "new": "builder-add-task"}[kind]
            mon.append({"cls": cls, "what": f"after {op}: tasks {sorted(n)} edges {sorted(e)}; declared tasks "
                                            f"{sorted(xn)} edges {sorted(xe)}"})

    def do(op):
        b = op[1]
        src = op[2] if op[0] == "freeze" else b
        before_dump = graph_dump(builders[src], ident) if src in builders else [[], [], [], [], []]
        other_dump = None
        if op[0] == "insert":
            other_dump = graph_dump(builders[op[2]], ident)
        elif op[0] == "plus":
            before_dump = graph_dump(builders[op[2]], ident)
            other_dump = graph_dump(builders[op[3]], ident)
        err = apply(op)
        after = graph_dump(builders[b], ident)
        bs = sets_of(before_dump)[:2]
        os_ = sets_of(other_dump)[:2] if other_dump is not None else (set(), set())
        monitor_op(op, bs, os_, before_dump, other_dump, after, err)
        real_dumps.append(["err", "ValueError", after] if err else after)
        tags.append("op:" + op[0])

    for op in ops:
        do(op)

    # close with one sink (decided on the real graph, recorded so that the driver sees the same op)
    final = case["final"]
    wb = builders[final]
    if case.get("close") and len(wb.output_tasks) != 1:
        outs = [ident(t) for t in wb.output_tasks]
        random.Random(case["close_shuffle"]).shuffle(outs)
        i = max([t[0] for t in tasks] + [-1]) + 1
        tasks.append([i, bool(case.get("close_ctx")), [["s", "z"]]])
        world.spec[i] = tasks[-1]
        world._make(i, tasks[-1][1], tasks[-1][2])
        op = ["add", final, i, outs]
        ops.append(op)
        do(op)

    wt, wo = S(wire_tasks(case_tasks)), S(wire_ops(ops))
    if drv is not None:
        m = drv.ask(["build", wt, wo])
        if m == ["err", "bad-op"] or len(m) != len(real_dumps):
            k.append(f"build: driver answered {str(m)[:200]}")
        else:
            for j, (md, rd) in enumerate(zip(m, real_dumps)):
                if md and md[0] == "err":
                    mdump, wf_ok = md[2], md[2][5]
                    md_cmp = ["err", "ValueError", mdump[:5]]
                elif md and md[0] == "copy-literal-differs":
                    k.append(f"op #{j} {ops[j]}: model's closed-form copy differs from the literal networkx copy")
                    continue
                else:
                    wf_ok = md[5]
                    md_cmp = md[:5]
                if md_cmp != rd:
                    k.append(f"op #{j} {ops[j]}: model {md_cmp} code {rd}")
                    break
                if wf_ok != "true":
                    tags.append("model-graph-not-wellformed")

    # ---------------- execution
    wf = Workflow(wb)
    wnodes = [ident(t) for t in wf.tasks]
    wpreds = {ident(t): [ident(p) for p in wf.get_predecessors(t)] for t in wf.tasks}
    order = topo_order(wnodes, wpreds)
    sinks = [ident(t) for t in wf.output_tasks]
    spec = {t[0]: t for t in tasks}
    tags.append(f"n={len(wnodes)}")
    tags.append(f"sinks={min(len(sinks), 3)}")
    if order is None:
        tags.append("cyclic")
    maxpred = max([len(v) for v in wpreds.values()] + [0])
    tags.append(f"maxpreds={min(maxpred, 4)}")
    haz = any(hazardous(spec[t][2]) for t in wnodes)
    if haz:
        tags.append("hazard-static")
    pos = {t: j for j, t in enumerate(wnodes)}
    ctx_inv = any(pos[p] < pos[q] and spec[p][1] and not spec[q][1]
                  for t in wnodes for p in wpreds[t] for q in wpreds[t])
    if ctx_inv:
        tags.append("ctx-pred-before-plain-pred")
    nontrivial = len(wnodes) >= 3 and maxpred >= 2

    # reference: sequential evaluation in topological order, literal static inputs, then predecessor
    # results in the order in which the predecessors entered the workflow (node order of wf)
    ref = ref_realised = None
    if order is not None and len(sinks) == 1:
        def seq_eval(key):
            val = {}
            for t in order:
                args = (["ctx"] if spec[t][1] else []) + [world.literal(s) for s in spec[t][2]]
                args += [val[p] for p in sorted(wpreds[t], key=key)]
                val[t] = f"t{t}(" + ",".join(args) + ")"
            return val[sinks[0]]
        ref = seq_eval(lambda p: pos[p])
        # what the unchanged code realises (theorem pred_order_after_relabel): context-taking tasks stably last
        ref_realised = seq_eval(lambda p: (bool(spec[p][1]), pos[p]))

    ctx = NullContext()
    results = {}
    model_exec = None
    if drv is not None:
        model_exec = drv.ask(["exec", wt, wo, final])
        if model_exec == ["err", "bad-op"]:
            k.append("exec: driver answered bad-op")
            model_exec = None
    first_capture = None
    for sched in case["scheds"]:
        world.log.clear()
        world.glog.clear()
        world.delay = random.Random(int(sched.split(":")[1])) if sched.startswith("delay") else None
        disp = CapturingDispatcher()
        try:
            with patched_scheduler(sched):
                res = ["ok", execute_workflow(wf, dispatcher=disp, context=ctx)]
        except Exception as e:  # noqa: an exception of the real code is an observation, not a harness error
            if isinstance(e, ValueError) and "Workflow can only have one output task" in str(e):
                res = ["err", "ValueError"]
            elif isinstance(e, RuntimeError) and "Cycle detected" in str(e):
                res = ["err", "RuntimeError"]
            else:
                res = ["err", type(e).__name__]
                mon.append({"cls": "execute-raised", "what": f"[{sched}] execute_workflow raised {type(e).__name__}: {str(e)[:200]}"})
        results[sched] = res
        tags.append("sched:" + sched.split(":")[0])
        log = list(world.log)
        # ---- monitors on this run
        if len(sinks) != 1:
            if res != ["err", "ValueError"]:
                mon.append({"cls": "sink-count-not-refused", "what": f"{len(sinks)} output tasks but execute_workflow gave {res}"})
        elif order is None:
            tags.append("exec-cyclic:" + res[0])
        else:
            cls = None
            if res != ["ok", ref]:
                cls = ("static-input-graph-literal" if haz else
                       "pred-order-context-task-moved" if ctx_inv and res == ["ok", ref_realised]
                       else "result-differs-from-topological-eval")
                mon.append({"cls": cls, "what": f"[{sched}] execute_workflow gave {res}, sequential topological "
                                                f"evaluation gives {ref!r}"})
            if res[0] == "ok":
                counts = {t: log.count(t) for t in wnodes}
                if any(c != 1 for c in counts.values()) or len(log) != len(wnodes):
                    mon.append({"cls": "call-count", "what": f"[{sched}] calls per task {counts}, log {log}"})
                at = {t: j for j, t in enumerate(log)}
                for t in wnodes:
                    if any(at.get(p, 1 << 30) > at.get(t, -1) for p in wpreds[t]) and t in at:
                        mon.append({"cls": "ran-before-predecessor", "what": f"[{sched}] task {t} ran at {at[t]} before a predecessor; log {log}"})
                        break
                if not haz and world.glog:
                    mon.append({"cls": "call-count", "what": "a callable that is no task was called"})
        # ---- K on this run
        if model_exec is not None:
            m_nodes, m_preds, m_dict, m_res, m_order, m_spec, m_haz = model_exec
            if res != m_res:
                k.append(f"[{sched}] result: model {m_res} code {res}")
            if disp.wf is not None and first_capture is None:
                first_capture = disp.wf
                ewf = disp.wf
                e_nodes = [str(name_id(t)) for t in ewf.tasks]
                e_preds = [[str(name_id(t)), [str(name_id(p)) for p in ewf.get_predecessors(t)]] for t in ewf.tasks]
                if e_nodes != m_nodes or e_preds != m_preds:
                    k.append(f"executed workflow: model nodes {m_nodes} preds {m_preds}; code nodes {e_nodes} preds {e_preds}")
                if len(sinks) == 1:
                    code_dict = canon_dict(ewf.as_dask_dict(), ewf, world)
                    if m_dict[0] != "ok" or sorted(m_dict[1:], key=repr) != code_dict:
                        k.append(f"dask dict: model {m_dict} code {code_dict}")
            if res[0] == "ok" and drv is not None and len(sinks) == 1:
                rp = drv.ask(["replay", wt, wo, final, S(log)])
                if rp != res:
                    k.append(f"[{sched}] observed firing order {log} replayed in the abstract scheduler: {rp}, code {res}")
                if m_haz != ("true" if haz else "false"):
                    k.append(f"hazard flag: model {m_haz} harness {haz}")
                if ref is not None and m_spec != ["ok", ref]:
                    k.append(f"topoEval: model {m_spec} harness reference {ref!r}")
    ok_results = {tuple(r) for r in results.values()}
    if len(ok_results) > 1 and len(sinks) == 1 and order is not None:
        mon.append({"cls": "schedule-dependent", "what": f"results differ between schedulers: {results}"})

    # ---------------- the dict of the call_workflow path (WorkflowBuilder(wf); insert_context; Workflow(wb))
    if len(sinks) == 1:
        wb2 = WorkflowBuilder(wf)
        insert_context(wb2, ctx)
        wf2 = Workflow(wb2)
        code_dict = canon_dict(wf2.as_dask_dict(), wf2, world)
        tags.append("q:call-dict")
        if drv is not None:
            m = drv.ask(["call", wt, wo, final])
            if m[0] != "ok" or sorted(m[1:], key=repr) != code_dict:
                k.append(f"call_workflow dict: model {m} code {code_dict}")
        # monitor dask_dict_faithful on the real dict
        problems = check_dict(wf2, wf2.as_dask_dict())
        if problems:
            mon.append({"cls": "dask-dict-unfaithful", "what": problems})
        # insert_context: exactly the context-taking tasks got the context prepended, same tasks and edges otherwise
        n0 = {t: spec[t] for t in wnodes}
        for t in wf2.tasks:
            i = name_id(t)
            want = ([ctx] if n0[i][1] else []) + [world.py_static(s) for s in n0[i][2]]
            if list(t.task_input) != want:
                mon.append({"cls": "insert-context", "what": f"task {i}: task_input {t.task_input!r}, declared {want!r}"})
                break
        e2 = {(name_id(p), name_id(t)) for t in wf2.tasks for p in wf2.get_predecessors(t)}
        e0 = {(p, t) for t in wnodes for p in wpreds[t]}
        if e2 != e0 or sorted(name_id(t) for t in wf2.tasks) != sorted(wnodes):
            mon.append({"cls": "insert-context", "what": f"edges after insert_context {sorted(e2)}, before {sorted(e0)}"})
    return {"k": k, "mon": mon, "tags": tags, "nontrivial": nontrivial}


def canon_dict(dsk, wf, world):
    """dask dict -> sorted [[key, fn, [static...], [pred keys...]]] with keys canonicalised to task names.
    Total: anything unexpected is kept as a marked repr so that it shows up as a disagreement, not a crash."""
    by_name = {t.name: t for t in wf.tasks}

    def ck(key):
        if key == "results":
            return "results"
        try:
            return str(int(str(key)[:-37][1:]))
        except ValueError:
            return "?" + repr(key)

    def ws(x):
        try:
            return S(world.wire_static(x))
        except Exception:
            return ["?", repr(x)]
    out = []
    for key, val in dsk.items():
        fn = val[0]
        name = getattr(fn, "__name__", "?")
        t = by_name.get(name)
        ns = len(t.task_input) if t is not None else 0
        static = [ws(x) for x in val[1:1 + ns]]
        preds = [ck(x) for x in val[1 + ns:]]
        out.append([ck(key), name[1:], static, preds])
    return sorted(out, key=repr)


def check_dict(wf, dsk):
    """dask_dict_faithful on the real dict: unique keys, sink is 'results', value = (function, *static, *pred keys)."""
    if len(dsk) != len(wf.tasks):
        return f"{len(dsk)} keys for {len(wf.tasks)} tasks"
    if "results" not in dsk:
        return "no 'results' key"
    key_of = {}
    for key, val in dsk.items():
        owners = [t for t in wf.tasks if t.function is val[0]]
        if len(owners) != 1:
            return f"key {key}: function belongs to {len(owners)} tasks"
        key_of[id(owners[0])] = key
    sink = wf.output_tasks[0]
    if key_of[id(sink)] != "results":
        return "the output task's key is not 'results'"
    for t in wf.tasks:
        val = dsk[key_of[id(t)]]
        want = (t.function, *t.task_input, *[key_of[id(p)] for p in wf.get_predecessors(t)])
        if len(val) != len(want) or any(a is not b and a != b for a, b in zip(val, want)):
            return f"value of {t.name} is {val!r}, expected {want!r}"
    return None
