"""C15 — Path locks give reader-writer exclusion without deadlock in every schedule.

The REAL lock.py source runs under a deterministic scheduler (c15_sched.py).

K   : every transition of the real ShareableThreadLock (via thread_level_lock) is replayed on
      the Lean model lean/PharmpyModel/C15/Thread.lean: enabledness of every parked thread,
      outcome (entered / waiting / raised X / exited) and the full lock state
      (_acquired_by, RLock owner+depth, waiters, notified) after every step.
Mon : the property statement on the real run, for thread_level_lock and for path_lock with
      1-2 simulated processes over a simulated POSIX record-lock table: exclusion, shared
      compatibility, no foreign release (kernel agreement), refusal instead of waiting for
      non-blocking requests, no lost wake-up / no wait without a holder, clean quiescence.
"""
from __future__ import annotations

import os
import random

from harness.common.paths import REPO_SRC

ID = "C15"
DRIVER = "drv_c15"
LEAN_TARGETS = ["PharmpyProofs.C15.Properties", "PharmpyProofs.C15.PathProperties", "drv_c15"]
PROPERTIES = ["PharmpyProofs/C15/Properties.lean", "PharmpyProofs/C15/PathProperties.lean"]
LEAN_SOURCES = ["PharmpyModel/C15/*.lean", "PharmpyProofs/C15/*.lean", "Drivers/C15.lean"]
TIME_LIMIT = {"quick": 900, "thorough": 3000}
CASE_CPU_LIMIT = 60
RULE = ("programs: 1-3 threads x 1-2 simulated processes, each thread 1-3 nested or sequential requests with arbitrary "
        "(shared, blocking, reentrant) on 1-2 paths, api in {thread_level_lock, path_lock}; schedule = seeded sequence of "
        "choices among enabled threads at primitive granularity (RLock/Condition/lockf/body points). thorough adds ALL "
        "schedules of the small programs (2-3 threads x 1 request, 2 threads x 2 requests bounded). non-trivial = at least "
        "two threads touch the same path and at least one request is exclusive; distinct = distinct (program, schedule). "
        "In half of the path_lock programs every request spells its path in one of 4 ways that designate the same file "
        "(d/f, d/./f, d//f, d/sub/../f); kind 'norm' = 24 random path strings over components {'', '.', '..', names} with 0-3 "
        "leading slashes (K of the Lean normpath against os.path.normpath)")
TRUSTED = [
    "Lean 4.33 kernel; axioms propext, Quot.sound, Classical.choice only (audited per theorem each run)",
    "hand-written model PharmpyModel/C15/Thread.lean, tied to lock.py by lock-step replay of the real code's transitions",
    "semantics of threading.RLock/Condition (wait releases all recursion levels and needs notify + the lock to return) as "
    "implemented by the instrumented primitives in harness/corr/c15_sched.py",
    "POSIX record locks: per (process, file); closing any descriptor of the file drops the process's locks (simulated kernel)",
    "simulated file system: a name designates the file found by walking its components (d/f, d//f, d/./f, d/sub/../f are one "
    "file), no symbolic links; real fcntl + real name resolution only in the `real` cases (c15_real.py)",
    "regions protected by one mutex are atomic; regions on different mutexes commute (pool mutexes are not scheduling points)",
]
ASSUMPTIONS = [
    "the process-level lock (ShareableProcessLock, fd pool) is covered by property monitors on the real code over the simulated "
    "kernel, not yet by Lean theorems",
    "true circular waits (two simultaneous upgraders, lock-order inversion across paths) are classified, not reported: the "
    "statement only demands that a request is granted once all conflicting holders have released",
]


def budget(tier):
    return int(os.environ.get("VERIF_BUDGET", 0)) or {"quick": 1500, "thorough": 12000}[tier]


# ------------------------------------------------------------------ generation

def gen_req(rng, npaths, depth, counter):
    counter[0] += 1
    rid = counter[0]
    kids = []
    if depth < 2 and rng.random() < 0.45:
        for _ in range(rng.randint(1, 2 if depth == 0 else 1)):
            kids.append(gen_req(rng, npaths, depth + 1, counter))
    return {"id": rid, "path": rng.randrange(npaths), "sh": rng.random() < 0.5, "bl": rng.random() < 0.7,
            "re": rng.random() < 0.6, "kids": kids}


# spellings of one path (all designate the same file; os.path.normpath maps each to the first)
SPELLINGS = ["/locks/p{n}", "/locks/./p{n}", "/locks//p{n}", "/locks/sub/../p{n}"]


def spell(req, api="path"):
    return SPELLINGS[req.get("sp", 0) if api == "path" else 0].format(n=req["path"])


_COMPS = ["", ".", "..", "a", "b", "sub", "lock", "..a", "a.", "...", "p0"]


def gen_norm(rng):
    paths = []
    for _ in range(24):
        n = rng.randint(0, 6)
        body = "/".join(rng.choice(_COMPS) for _ in range(n))
        paths.append("/" * rng.choice([0, 0, 1, 1, 1, 2, 3]) + body)
    return {"kind": "norm", "paths": paths, "seed": rng.randrange(1 << 30)}


def count_reqs(reqs):
    return sum(1 + count_reqs(r["kids"]) for r in reqs)


def gen_cases(rng: random.Random, n: int, tier: str):
    out = []
    for _ in range(n):
        if rng.random() < 0.04:
            out.append(gen_norm(rng))
            continue
        api = "thread" if rng.random() < 0.5 else "path"
        nprocs = 1 if api == "thread" or rng.random() < 0.4 else 2
        npaths = 1 if rng.random() < 0.75 else 2
        nthreads = rng.randint(2, 3)
        threads = []
        counter = [0]
        for t in range(nthreads):
            prog = []
            budget_reqs = rng.randint(1, 3)
            while count_reqs(prog) < budget_reqs:
                prog.append(gen_req(rng, npaths, 0, counter))
                if count_reqs(prog) >= 3:
                    break
            threads.append({"proc": rng.randrange(nprocs), "prog": prog})
        if api == "path" and rng.random() < 0.5:
            # several spellings of the same file within one program
            for t in threads:
                for r in _flat(t["prog"]):
                    r["sp"] = rng.randrange(len(SPELLINGS))
        out.append({"kind": "run", "api": api, "nprocs": nprocs, "threads": threads,
                    "schedule": [rng.randrange(6) for _ in range(rng.randint(0, 60))], "seed": rng.randrange(1 << 30)})
    if tier == "thorough":
        out += [dict(c, limit=6000) for c in exhaustive_programs() + alias_programs()]
    return out


def R(i, sh, bl=True, re=True, kids=(), path=0, sp=0):
    r = {"id": i, "path": path, "sh": sh, "bl": bl, "re": re, "kids": list(kids)}
    if sp:
        r["sp"] = sp
    return r


def alias_programs():
    """One file locked under two spellings inside one process (two threads, or nested reentrantly in one thread),
    with and without a second process asking for a conflicting lock."""
    out = []
    for sp in (1, 2, 3):
        for a_sh, b_sh in ((True, True), (True, False), (False, True)):
            two = [{"proc": 0, "prog": [R(1, a_sh)]}, {"proc": 0, "prog": [R(2, b_sh, sp=sp)]}]
            out.append({"kind": "all", "api": "path", "nprocs": 1, "threads": two, "seed": 0})
            out.append({"kind": "all", "api": "path", "nprocs": 2, "limit": 300,
                        "threads": two + [{"proc": 1, "prog": [R(3, not (a_sh and b_sh), bl=False)]}], "seed": 0})
        out.append({"kind": "all", "api": "path", "nprocs": 2,
                    "threads": [{"proc": 0, "prog": [R(1, True, kids=[R(2, True, sp=sp)]), R(3, True)]},
                                {"proc": 1, "prog": [R(4, False, bl=False)]}], "seed": 0})
    return out


def exhaustive_programs():
    """Small programs explored under ALL schedules (kind 'all')."""
    progs = []
    modes = [(True, True, True), (False, True, True), (False, False, True), (True, True, False), (False, True, False)]
    for api in ("thread", "path"):
        for a in modes:
            for b in modes:
                progs.append({"kind": "all", "api": api, "nprocs": 1,
                              "threads": [{"proc": 0, "prog": [R(1, *a)]}, {"proc": 0, "prog": [R(2, *b)]}], "seed": 0})
        # the upgrade pattern against a plain reader / writer
        for b in modes:
            progs.append({"kind": "all", "api": api, "nprocs": 1,
                          "threads": [{"proc": 0, "prog": [R(1, True, kids=[R(2, False)])]}, {"proc": 0, "prog": [R(3, *b)]}], "seed": 0})
            progs.append({"kind": "all", "api": api, "nprocs": 1,
                          "threads": [{"proc": 0, "prog": [R(1, False, kids=[R(2, True)])]}, {"proc": 0, "prog": [R(3, *b)]}], "seed": 0})
    for a in modes[:3]:
        for b in modes[:3]:
            progs.append({"kind": "all", "api": "path", "nprocs": 2,
                          "threads": [{"proc": 0, "prog": [R(1, *a)]}, {"proc": 1, "prog": [R(2, *b)]}], "seed": 0})
            progs.append({"kind": "all", "api": "thread", "nprocs": 1,
                          "threads": [{"proc": 0, "prog": [R(1, *a)]}, {"proc": 0, "prog": [R(2, *b)]},
                                      {"proc": 0, "prog": [R(3, True)]}], "seed": 0})
    return progs


def corpus_cases():
    # F1: T0 holds shared and upgrades (reentrant) while T1 holds shared and then leaves
    up = {"kind": "all", "api": "thread", "nprocs": 1,
          "threads": [{"proc": 0, "prog": [R(1, True, kids=[R(2, False)])]}, {"proc": 0, "prog": [R(3, True)]}], "seed": 0}
    up_path = dict(up, api="path")
    return [up, up_path,
            {"kind": "all", "api": "path", "nprocs": 2,
             "threads": [{"proc": 0, "prog": [R(1, False)]}, {"proc": 1, "prog": [R(2, True)]}], "seed": 0},
            {"kind": "all", "api": "thread", "nprocs": 1,
             "threads": [{"proc": 0, "prog": [R(1, True, re=False, kids=[R(2, True, re=False)])]},
                         {"proc": 0, "prog": [R(3, False, bl=False)]}], "seed": 0}] + _alias_corpus() + _real_corpus()


def _alias_corpus():
    """Two spellings of one file in one process: all schedules of the small programs, plus seeded random schedules of
    the reader/reader/foreign-writer program (the overlap of the two bodies is reached by most of them)."""
    out = alias_programs()
    for seed in range(1, 9):
        out.append({"kind": "run", "api": "path", "nprocs": 2, "schedule": [], "seed": seed,
                    "threads": [{"proc": 0, "prog": [R(1, True)]}, {"proc": 0, "prog": [R(2, True, sp=1 + seed % 3)]},
                                {"proc": 1, "prog": [R(3, False, bl=False), R(4, False, bl=False)]}]})
    out.append({"kind": "norm", "seed": 0,
                "paths": ["", ".", "/", "//", "///", "//a", "///a/", "a/..", "a/../..", "/..", "/../a", "a//b/./c/../d/",
                          "/locks/p0", "/locks/./p0", "/locks//p0", "/locks/sub/../p0", "..", "../..", "./", "a/./"]})
    return out


def _real_corpus():
    from harness.corr.c15_real import corpus_real
    return corpus_real()


def shrink(case):
    if case.get("kind") in ("real", "norm"):
        return
    th = case["threads"]
    if len(th) > 2:
        for i in range(len(th)):
            c = dict(case)
            c["threads"] = th[:i] + th[i + 1:]
            yield c
    for i, t in enumerate(th):
        if len(t["prog"]) > 1:
            for j in range(len(t["prog"])):
                c = dict(case)
                c["threads"] = [dict(x) for x in th]
                c["threads"][i]["prog"] = t["prog"][:j] + t["prog"][j + 1:]
                yield c
    if case.get("schedule"):
        c = dict(case)
        c["schedule"] = case["schedule"][: len(case["schedule"]) // 2]
        yield c


# ------------------------------------------------------------------ one execution

_SRC = None


def worker_init():
    global _SRC
    _SRC = (REPO_SRC / "pharmpy" / "internals" / "fs" / "lock.py").read_text()


class Exec:
    """One run of a program under one schedule; collects K disagreements and monitor failures."""

    def __init__(self, case, drv, chooser):
        from harness.corr.c15_sched import Runtime
        self.case, self.drv, self.chooser = case, drv, chooser
        self.api = case["api"]
        self.rt = Runtime(_SRC, case["nprocs"])
        self.k, self.mon, self.tags = [], [], set()
        self.model_on = drv is not None
        self.nchoices = []
        if self.model_on:
            drv.ask(["reset", True])
        self.tid_of = {}
        self._req_of_event = {}
        self._pl_entering = set()
        self.ex_stack = {}
        self.pool_keys = {}
        self.pool_objs = {}
        self.tl_entered = set()  # (tid, req id) whose thread-level frame exists
        self.npids = case["nprocs"]
        for i, t in enumerate(case["threads"]):
            tid = 100 + i
            vt = self.rt.spawn(t["proc"], tid, t["prog"], self.body)
            self.tid_of[tid] = vt

    # the test program run by every virtual thread
    def body(self, rt, vt):
        ns = rt.procs[vt.proc]
        wb = ns["AcquiringLockWouldBlockError"]
        rec = ns["RecursiveDeadlockError"]

        def run_req(req):
            vt.phase = ("enter", req)
            outer_path = vt.cur_path
            vt.cur_path = spell(req, self.api)
            try:
                if self.api == "thread":
                    cm = ns["thread_level_lock"](vt.cur_path, req["sh"], req["bl"], req["re"])
                else:
                    cm = ns["path_lock"](vt.cur_path, req["sh"], req["bl"], req["re"])
                with cm:
                    vt.in_body.append(req)
                    vt.phase = ("body", req)
                    rt.point(vt, ("body-enter", req["id"]), lambda: True)
                    for kreq in req["kids"]:
                        run_req(kreq)
                    vt.phase = ("exit", req)
                    vt.cur_path = spell(req, self.api)
                    rt.point(vt, ("body-exit", req["id"]), lambda: True)
                    vt.in_body.pop()
                vt.phase = ("after", req)
                vt.log.append((req["id"], "ok"))
            except wb as e:
                vt.phase = ("after", req)
                vt.log.append((req["id"], "WouldBlock:" + type(e).__name__))
            except rec:
                vt.phase = ("after", req)
                vt.log.append((req["id"], "RecursiveDeadlockError"))
            finally:
                vt.cur_path = outer_path

        for r in vt.program:
            run_req(r)
        vt.phase = ("done", None)

    # ---- mapping of the parked point to the Lean models' events
    def model_event(self, vt):
        """('tl'|'pl', event) for the transition the parked thread will perform when granted, or None."""
        if vt.pending is None or vt.phase is None:
            return None
        desc = vt.pending[0]
        ph, req = vt.phase
        if req is None:
            return None
        VLock, VRLock, VCond = self.rt.procs[vt.proc]["_classes"]
        entered = (vt.tid, req["id"]) in self.tl_entered
        if desc[0] == "acq" and isinstance(desc[1], VRLock):
            if ph == "enter" and not entered:
                return ("tl", [("shEnter" if req["sh"] else "exEnter"), vt.tid, req["bl"], req["re"]])
            if ph == "exit" or (ph == "enter" and entered):  # normal exit, or unwinding after a process-level refusal
                return ("tl", ["shExit", vt.tid])
        if desc[0] == "wait":
            return ("tl", ["exWake", vt.tid, req["re"]])
        if desc[0] == "acq" and isinstance(desc[1], VLock) and desc[1].is_point:
            if ph == "enter":
                return ("pl", ["enter", vt.proc, vt.tid, req["sh"], req["bl"], req["re"]])
            if ph == "exit":
                return ("pl", ["exit", vt.proc, vt.tid, req["sh"]])
        if desc[0] == "lockf":
            return ("pl", ["lockf", vt.proc, vt.tid])
        return None

    def replay_pool(self, vt, ev):
        """Keyed reference pools: replay enter/exit on the Lean pool model, compare entries and refcounts
        (objects are identified by creation order within the pool)."""
        kind, name, key, obj, spelled = ev
        if self.api == "path" and kind == "pool-enter" and name in ("thread", "fd") and spelled is not None:
            # K: the key path_lock enters this registry with, for the path as spelled by the caller
            ka = self.drv.ask(["keys", spelled])
            mkey = ka[1 if name == "thread" else 2] if ka[0] == "ok" else ka
            self.tags.add("keys:" + name)
            if mkey != key:
                self.k.append(f"path_lock({spelled!r}): key of the {name} registry: model {mkey!r} real {key!r}")
        pool_id = vt.proc * 3 + {"thread": 0, "proc": 1, "fd": 2}[name]
        keys = self.pool_keys.setdefault(pool_id, {})
        kid = keys.setdefault(key, len(keys))
        ans = self.drv.ask(["pool", pool_id, "enter" if kind == "pool-enter" else "exit", vt.tid, kid])
        self.tags.add("pool:" + name)
        if ans[0] != "ok":
            self.k.append(f"pool {name} {kind} key {key!r}: model {ans}")
            return None
        model = sorted((int(k), int(n)) for k, _o, n in ans[1][0])
        return (pool_id, name, model)

    def tl_key(self, vt, req):
        return vt.proc * 10 + req["path"]

    def real_proc_state(self, path):
        rt = self.rt
        pstr = f"/locks/p{path}"
        kern = sorted((p, m == "ex") for p, m in rt.kernel.table.get(pstr, {}).items())
        procs = []
        for p, ns in enumerate(rt.procs):
            sh, ex, pend = [], [], None
            for fd, (pl, _rc) in ns["_process_level_lock_ref"]._refs.items():
                if rt.kernel.fds.get((p, fd)) == pstr:
                    sh = sorted(t for t, c in pl._shared_by.items() for _ in range(c))
                    ex = sorted(t for t, c in pl._exclusively_held_by.items() for _ in range(c))
                    pend = pl._lock.locked_by
            procs.append((p, sh, ex, pend))
        return {"kernel": kern, "procs": procs}

    @staticmethod
    def model_proc_state(st):
        kern, procs = st
        return {"kernel": sorted((int(p), m == "true") for p, m in kern),
                "procs": [(int(p), [int(x) for x in sh], [int(x) for x in ex], None if pd == "none" else int(pd))
                          for p, sh, ex, pd in procs]}

    def real_lock_state(self, path, proc=0):
        ns = self.rt.procs[proc]
        ent = ns["_thread_level_lock_ref"]._refs.get(f"/locks/p{path}")
        if ent is None:
            return None
        lk = ent[0]
        cond = lk._condition
        return {"counts": {t: c for t, c in lk._acquired_by.items() if c},
                "owner": cond.lock.owner, "depth": cond.lock.depth,
                "waiting": sorted(cond.waiters), "notified": sorted(set(cond.notified) & set(cond.waiters))}

    @staticmethod
    def model_lock_state(st):
        owner, depth, frames, waiting, notified = st
        counts = {}
        for t, _m in frames:
            counts[int(t)] = counts.get(int(t), 0) + 1
        w = sorted(int(x[0]) for x in waiting)
        return {"counts": counts, "owner": None if owner == "none" else int(owner), "depth": int(depth),
                "waiting": w, "notified": sorted(set(int(x) for x in notified) & set(w))}

    def outcome_of(self, vt, ev, nlog):
        """Real outcome of the transition just executed by vt (nlog = len(vt.log) before it)."""
        if ev[0] in ("shExit", "exExit"):
            return "exited"
        rid = self._req_of_event.get(vt.tid)
        for r, out in vt.log[nlog:]:
            if r == rid and out != "ok":
                return out.split(":")[0]
        if not vt.done and vt.pending is not None and vt.pending[0][0] == "wait":
            return "waiting"
        return "entered"

    # ---- monitors evaluated after every step
    def check_state(self):
        rt = self.rt
        holders = {}
        for vt in rt.threads:
            for req in vt.in_body:
                holders.setdefault(req["path"], []).append((vt, req))
        for path, hs in holders.items():
            for i in range(len(hs)):
                for j in range(i + 1, len(hs)):
                    (a, ra), (b, rb) = hs[i], hs[j]
                    if a is b:
                        continue
                    if not ra["sh"] or not rb["sh"]:
                        self.fail("exclusion", f"thread {a.tid}(proc {a.proc}) holds path {path} "
                                  f"{'shared' if ra['sh'] else 'exclusively'} while thread {b.tid}(proc {b.proc}) holds it "
                                  f"{'shared' if rb['sh'] else 'exclusively'}")
            if self.api == "path":
                for vt, req in hs:
                    held = rt.kernel.table.get(f"/locks/p{path}", {}).get(vt.proc)
                    if held is None or (not req["sh"] and held != "ex"):
                        others = {r.get("sp", 0) for o in rt.threads if o.proc == vt.proc
                                  for r in _flat(o.program) if r["path"] == path} - {req.get("sp", 0)}
                        nfd = sorted(n for (p, n), f in rt.kernel.fds.items() if p == vt.proc and f == f"/locks/p{path}")
                        if others:
                            self.fail("foreign-release-path-alias",
                                      f"thread {vt.tid} (process {vt.proc}) is in a {'shared' if req['sh'] else 'exclusive'} body "
                                      f"of path_lock({spell(req)!r}) but its process holds {held!r} in the kernel lock table; "
                                      f"other requests of the process lock the same file as "
                                      f"{sorted(SPELLINGS[x].format(n=path) for x in others)}; descriptors of the file "
                                      f"open in the process: {[(n, rt.kernel.opened_as.get((vt.proc, n))) for n in nfd]}")
                        self.fail("foreign-release", f"thread {vt.tid} is in a {'shared' if req['sh'] else 'exclusive'} body on path "
                                  f"{path} but its process holds {held!r} in the kernel lock table")
        # a shared request of one process must not be kept waiting by a process that has no exclusive
        # holder any more (its kernel entry should have been downgraded or removed)
        for vt in rt.threads:
            if vt.done or vt.pending is None or vt.pending[0][0] != "lockf" or vt.pending[1]():
                continue
            _, pstr, mode, _bl = vt.pending[0]
            if mode != "sh":
                continue
            for q, m in rt.kernel.table.get(pstr, {}).items():
                if q == vt.proc or m != "ex":
                    continue
                ns = rt.procs[q]
                for fd, (pl, _rc) in ns["_process_level_lock_ref"]._refs.items():
                    if rt.kernel.fds.get((q, fd)) == pstr and not pl._exclusively_held_by and pl._lock.locked_by is None:
                        self.fail("stale-exclusive", f"thread {vt.tid} (process {vt.proc}) waits for a shared lock on {pstr} while process "
                                  f"{q} still holds it exclusively in the kernel although none of its threads holds it exclusively")
        for vt in rt.threads:
            if vt.done or vt.pending is None or vt.phase is None:
                continue
            ph, req = vt.phase
            d = vt.pending[0]
            VLock = rt.procs[vt.proc]["_classes"][0]
            if d[0] == "acq" and isinstance(d[1], VLock) and not d[1].is_point:
                continue  # a pool mutex: held only for a bounded region (at most across an open/close call)
            if ph == "enter" and not req["bl"] and not vt.pending[1]():
                self.fail("nonblocking-waits", f"non-blocking request {req['id']} of thread {vt.tid} is parked at {vt.pending[0][0]}")

    def fail(self, cls, what):
        if not any(m["cls"] == cls for m in self.mon):
            self.mon.append({"cls": cls, "what": what})

    def final_checks(self):
        rt = self.rt
        stuck = [vt for vt in rt.threads if not vt.done]
        for vt in rt.threads:
            if vt.error is not None:
                self.fail("internal-error", f"thread {vt.tid}: {type(vt.error).__name__}: {vt.error}")
        if not stuck:
            self.tags.add("end:all-finished")
            for p, ns in enumerate(rt.procs):
                for pool in ("_thread_level_lock_ref", "_process_level_lock_ref", "_fd_ref"):
                    if ns[pool]._refs:
                        self.fail("not-clean", f"process {p}: {pool} not empty after all threads finished: {list(ns[pool]._refs)}")
            if rt.kernel.fds:
                self.fail("not-clean", f"file descriptors left open: {sorted(rt.kernel.fds)}")
            if rt.kernel.summary():
                self.fail("not-clean", f"kernel lock table not empty: {rt.kernel.summary()}")
            return
        # somebody is stuck although no thread is enabled: every stuck thread must wait for another stuck thread
        self.tags.add("end:stuck")
        stuck_ids = {vt.tid for vt in stuck}
        for vt in stuck:
            desc = vt.pending[0]
            VLock, VRLock, VCond = rt.procs[vt.proc]["_classes"]
            if desc[0] == "wait":
                cond = desc[1]
                if vt.tid not in cond.notified:
                    lk = self._lock_of_cond(vt.proc, cond)
                    others = [t for t, c in lk._acquired_by.items() if c and t != vt.tid] if lk is not None else []
                    if not others:
                        self.fail("lost-wakeup", f"thread {vt.tid} waits in Condition.wait() un-notified although no other thread "
                                  f"holds the lock any more (its own count is {lk._acquired_by.get(vt.tid, 0) if lk else '?'})")
                    elif not set(others) <= stuck_ids:
                        self.fail("wait-for-finished", f"thread {vt.tid} waits for finished threads {others}")
                else:
                    if cond.lock.owner not in stuck_ids:
                        self.fail("wait-for-finished", f"thread {vt.tid} notified but RLock owned by {cond.lock.owner}")
            elif desc[0] == "acq":
                lk = desc[1]
                owner = lk.owner if isinstance(lk, VRLock) else lk.locked_by
                if owner not in stuck_ids:
                    self.fail("wait-for-finished", f"thread {vt.tid} blocked on a lock owned by {owner}, which is not running")
            elif desc[0] == "lockf":
                _, path, mode, _bl = desc
                held = rt.kernel.table.get(path, {})
                blockers = [p for p, m in held.items() if p != vt.proc and (mode == "ex" or m == "ex")]
                live = {o.proc for o in stuck if any(f"/locks/p{r['path']}" == path for r in o.in_body) or (o.pending and o.pending[0][0] == "lockf")}
                if not blockers or not set(blockers) <= live:
                    self.fail("kernel-lock-leaked", f"thread {vt.tid} blocked in lockf({mode}) on {path}; kernel table {held}, "
                              f"but no live thread of the blocking process holds it")
        if not self.mon:
            self.tags.add("end:circular-wait")

    def _lock_of_cond(self, proc, cond):
        ns = self.rt.procs[proc]
        for key, (lk, _rc) in ns["_thread_level_lock_ref"]._refs.items():
            if lk._condition is cond:
                return lk
        return None

    def run(self):
        rt = self.rt
        rt.start()
        steps = 0
        pids = list(range(self.npids))
        try:
            while True:
                en = rt.enabled()
                if self.model_on:
                    # enabledness of every parked thread with a model event must agree
                    for vt in rt.threads:
                        if vt.done or vt.pending is None:
                            continue
                        me = self.model_event(vt)
                        if me is None:
                            continue
                        kind, ev = me
                        req = vt.phase[1]
                        if kind == "tl":
                            m = self.drv.ask(["enabled", self.tl_key(vt, req), ev])
                        else:
                            m = self.drv.ask(["penabled", req["path"], ev])
                        real = vt.pending[1]()
                        if (m == "true") != real:
                            self.k.append(f"enabledness of {ev}: model {m} real {real}")
                if not en:
                    break
                self.nchoices.append(len(en))
                vt = self.chooser(steps, en)
                me = self.model_event(vt) if self.model_on else None
                req = vt.phase[1] if vt.phase else None
                nlog = len(vt.log)
                if me is not None:
                    self._req_of_event[vt.tid] = req["id"]
                rt.grant(vt)
                steps += 1
                if me is not None:
                    kind, ev = me
                    if kind == "tl":
                        self.replay_tl(vt, req, ev, nlog)
                    else:
                        self.replay_pl(vt, req, ev, nlog)
                if self.model_on:
                    self.drain_events(vt)
                self.check_state()
                if steps > 2000:
                    self.fail("livelock", "more than 2000 steps")
                    break
            self.final_checks()
        finally:
            rt.finish()
        return steps

    def replay_tl(self, vt, req, ev, nlog):
        key = self.tl_key(vt, req)
        ans = self.drv.ask(["step", key, ev])
        real_out = self.outcome_of(vt, ev, nlog)
        if self.api == "path" and ev[0] in ("shEnter", "exEnter", "exWake") and real_out == "entered":
            # on the path API "entered" at the thread level means: the thread went on to the process level
            pass
        if ans[0] != "ok":
            self.k.append(f"step {ev}: model {ans} real {real_out}")
            return
        model_out = ans[1]
        if self.api == "path" and ev[0] in ("shEnter", "exEnter", "exWake") and model_out == "entered":
            # the real outcome of the *request* is decided later by the process level; at the thread level
            # we observe that the thread did not wait and did not raise a thread-level error
            if real_out in ("waiting", "RecursiveDeadlockError") or (real_out == "WouldBlock" and self._last_exc_level(vt, nlog) == "Thread"):
                self.k.append(f"step {ev}: model outcome entered real {real_out}")
            else:
                self.tl_entered.add((vt.tid, req["id"]))
                if not req["sh"]:
                    self.ex_stack.setdefault(vt.tid, []).append(req)
        else:
            if model_out != real_out:
                self.k.append(f"step {ev}: model outcome {model_out} real {real_out}")
            if model_out == "entered":
                self.tl_entered.add((vt.tid, req["id"]))
                if not req["sh"]:
                    self.ex_stack.setdefault(vt.tid, []).append(req)
        if ev[0] in ("shExit", "exExit"):
            self.tl_entered.discard((vt.tid, req["id"]))
        if ev[0] in ("shEnter", "exEnter", "exWake") and vt.events:
            # the request was refused later in the same step and the frame is already gone again
            self.drain_events(vt)
            return
        self.compare_tl(vt, req, ev, ans[2])
        self.tags.add("ev:" + ev[0])
        self.tags.add("out:" + real_out)

    def _last_exc_level(self, vt, nlog):
        for r, out in vt.log[nlog:]:
            if "ThreadLevel" in out:
                return "Thread"
            if "ProcessLevel" in out:
                return "Process"
        return None

    def compare_tl(self, vt, req, ev, st):
        real_st = self.real_lock_state(req["path"], vt.proc)
        model_st = self.model_lock_state(st)
        if real_st is None:
            real_st = {"counts": {}, "owner": None, "depth": 0, "waiting": [], "notified": []}
        if real_st != model_st:
            self.k.append(f"state after {ev}: model {model_st} real {real_st}")

    def replay_pl(self, vt, req, ev, nlog):
        pids = list(range(self.npids))
        ans = self.drv.ask(["pstep", req["path"], ev, pids])
        # real outcome of the process-level transition
        if not vt.done and vt.pending is not None and vt.pending[0][0] == "lockf":
            real_out = "inLockf"
            if ev[0] == "exit":
                self._pl_entering.add(vt.tid)  # here: "a downgrade lockf is pending for this thread"
        elif ev[0] == "exit" or (ev[0] == "lockf" and vt.tid in self._pl_entering):
            real_out = "exited"
            self._pl_entering.discard(vt.tid)
        else:
            real_out = "entered"
            for r, out in vt.log[nlog:]:
                if r == req["id"] and out != "ok":
                    real_out = out.split(":")[0]
            if real_out == "entered" and not vt.done and vt.inflight:
                # the exception is still propagating through the thread-level exit path
                real_out = "WouldBlock" if "WouldBlock" in vt.inflight else vt.inflight
        if ans[0] != "ok":
            self.k.append(f"pstep {ev}: model {ans} real {real_out}")
            return
        if ans[1] != real_out:
            self.k.append(f"pstep {ev}: model outcome {ans[1]} real {real_out}")
        real_st = self.real_proc_state(req["path"])
        model_st = self.model_proc_state(ans[2])
        if real_st != model_st:
            self.k.append(f"process state after {ev}: model {model_st} real {real_st}")
        self.tags.add("pev:" + ev[0])
        self.tags.add("pout:" + real_out)

    def drain_events(self, vt):
        """The exclusive thread-level exit has no scheduling point of its own; the observer wrapped around
        thread_level_lock tells when it happened, and it is replayed on the model here."""
        evs, vt.events = vt.events, []
        touched = {}
        for ev in evs:
            if ev[0].startswith("pool-"):
                r = self.replay_pool(vt, ev)
                if r is not None:
                    touched[r[0]] = r
        # all pool operations of this step have been replayed: compare each touched pool once
        for pool_id, name, model in touched.values():
            keys = self.pool_keys[pool_id]
            ns = self.rt.procs[vt.proc]
            real_pool = ns[{"thread": "_thread_level_lock_ref", "proc": "_process_level_lock_ref", "fd": "_fd_ref"}[name]]
            real = sorted((keys.get(k, -1), rc) for k, (o, rc) in real_pool._refs.items())
            if real != model:
                self.k.append(f"pool {name} of process {vt.proc}: model (key, refcount) {model} real {real}")
        for ev in evs:
            if ev[0].startswith("pool-"):
                continue
            kind, key, shared = ev[:3]
            if kind != "tl-exit" or shared:
                continue
            stack = self.ex_stack.get(vt.tid, [])
            if not stack:
                self.k.append(f"thread {vt.tid} left an exclusive thread-level lock the model does not know about")
                continue
            req = stack.pop()
            tev = ["exExit", vt.tid]
            a2 = self.drv.ask(["step", self.tl_key(vt, req), tev])
            self.tl_entered.discard((vt.tid, req["id"]))
            if a2[0] != "ok":
                self.k.append(f"step {tev}: model {a2}")
            else:
                self.compare_tl(vt, req, tev, a2[2])
            self.tags.add("ev:exExit")


def run_schedule(case, drv, prefix, rng):
    def chooser(i, en):
        if i < len(prefix):
            return en[prefix[i] % len(en)]
        if rng is None:
            return en[0]
        return en[rng.randrange(len(en))]
    ex = Exec(case, drv, chooser)
    steps = ex.run()
    return ex, steps


def run_norm(case, drv):
    """K: Lean `normpath` (PharmpyModel/C15/Path.lean) against os.path.normpath, which path_lock derives its keys from."""
    import posixpath
    k, tags = [], {"kind:norm"}
    for p in case["paths"]:
        real = posixpath.normpath(p)
        tags.add("norm:" + ("changed" if real != p else "fixpoint"))
        tags.add(f"norm-slashes:{min(len(p) - len(p.lstrip('/')), 3)}")
        if posixpath.normpath(real) != real:
            k.append(f"os.path.normpath is not idempotent on {p!r}")
        if drv is not None:
            a = drv.ask(["normpath", p])
            if a[0] != "ok" or a[1] != real:
                k.append(f"normpath({p!r}): model {a!r} real {real!r}")
    return {"k": k[:5], "mon": [], "tags": sorted(tags), "nontrivial": any(posixpath.normpath(p) != p for p in case["paths"])}


def run_case(case, drv):
    if case.get("kind") == "real":
        from harness.corr.c15_real import run_real
        return run_real(case, drv)
    if case.get("kind") == "norm":
        return run_norm(case, drv)
    tags = {f"api:{case['api']}", f"procs:{case['nprocs']}", f"threads:{len(case['threads'])}", f"kind:{case['kind']}"}
    if case["api"] == "path":
        nsp = max((len({r.get("sp", 0) for t in case["threads"] for r in _flat(t["prog"]) if r["path"] == pth})
                   for pth in {r["path"] for t in case["threads"] for r in _flat(t["prog"])}), default=1)
        tags.add(f"spellings-of-one-file:{nsp}")
    k, mon = [], []
    reqs = [r for t in case["threads"] for r in _flat(t["prog"])]
    paths = {}
    for t in case["threads"]:
        for r in _flat(t["prog"]):
            paths.setdefault(r["path"], set()).add(id(t))
    nontrivial = any(len(v) >= 2 for v in paths.values()) and any(not r["sh"] for r in reqs)
    if case["kind"] == "run":
        ex, steps = run_schedule(case, drv, case["schedule"], random.Random(case["seed"]))
        k, mon = ex.k, ex.mon
        tags |= ex.tags
        tags.add(f"steps:{min(steps // 10 * 10, 60)}+")
    else:
        # all schedules, depth-first over the choice sequence (stateless re-execution)
        limit = int(os.environ.get("VERIF_C15_MAXSCHED", 0)) or case.get("limit", 600)
        prefix, n = [], 0
        while True:
            ex, steps = run_schedule(case, drv, prefix, None)
            n += 1
            k += ex.k
            for m in ex.mon:
                if not any(x["cls"] == m["cls"] for x in mon):
                    m = dict(m, what=m["what"] + f" [schedule {prefix + [0] * (len(ex.nchoices) - len(prefix))}]")
                    mon.append(m)
            tags |= ex.tags
            # next schedule in DFS order
            full = prefix + [0] * (len(ex.nchoices) - len(prefix))
            i = len(full) - 1
            while i >= 0 and full[i] + 1 >= ex.nchoices[i]:
                i -= 1
            if i < 0 or n >= limit or k:
                break
            prefix = full[:i] + [full[i] + 1]
        tags.add("all-schedules:" + ("complete" if i < 0 else "truncated"))
        tags.add(f"schedules:{n}")
    return {"k": k[:5], "mon": mon, "tags": sorted(tags), "nontrivial": nontrivial}


def _flat(reqs):
    for r in reqs:
        yield r
        yield from _flat(r["kids"])
