"""C20 — `_get_iter_df` / `_parse_ofv` (tools/external/nonmem/results.py): which rows of an .ext table become the iteration
history and which value is reported as the final objective value.

K   : the real `_get_iter_df` on generated frames (ITERATION, a position column, OBJ incl. NaN) vs Lean `IterDf.getIterDf`
      (PharmpyModel/C20/IterDf.lean, driver op `iterdf`), both branches.
Mon : an .ext file rendered by the reference writer, read with NONMEMTableFile and passed to the real `_parse_ofv`: when the last
      table has a row -1000000000 (the row NONMEM designates for the final value) the reported final OFV is that row's OBJ.
"""
from __future__ import annotations

import shutil

FINAL = -10**9
SPECIAL = [FINAL - 1, FINAL - 4, FINAL - 5, FINAL - 6]


def gen_iterdf(rng):
    """realistic shapes (burn-in negatives, 0, increasing iterations, FINAL, special rows) with every part optional, plus hostile orders"""
    rows = []
    r = rng.random()
    if r < 0.25:
        rows += [[-rng.randint(1, 1000), rng.randint(1, 9)] for _ in range(rng.randint(1, 2))]
    if rng.random() < 0.8:
        rows.append([0, rng.randint(1, 9)])
    it = 0
    for _ in range(rng.randint(0, 3)):
        it += rng.randint(1, 20)
        rows.append([it, rng.randint(1, 9)])
    if rng.random() < 0.85:
        last = [x for x in rows if x[0] >= 0]
        same = rng.random() < 0.6 and last
        rows.append([FINAL, last[-1][1] if same else rng.randint(1, 9)])
        if rng.random() < 0.1:
            rows.append([FINAL, rng.randint(1, 9)])
    for c in SPECIAL:
        if rng.random() < 0.5:
            rows.append([c, 0])
    if rng.random() < 0.15:
        rng.shuffle(rows)
    if rng.random() < 0.12 and rows:
        rows[rng.randrange(len(rows))][1] = None      # NaN objective (frames only)
    return {"kind": "iterdf", "rows": rows}


def corpus():
    return [
        {"kind": "iterdf", "rows": [[0, 5], [10, 3], [FINAL, 2], [FINAL - 1, 0]], "seed": 901},   # known: designated row differs from last iteration
        {"kind": "iterdf", "rows": [[0, 5], [10, 3], [FINAL, 3], [FINAL - 1, 0]], "seed": 902},
        {"kind": "iterdf", "rows": [[FINAL, 3], [FINAL - 1, 0]], "seed": 903},                      # evaluation only
        {"kind": "iterdf", "rows": [[-5, 3], [FINAL, 3]], "seed": 904},                             # fixed: designated row not first, no iteration 0
        {"kind": "iterdf", "rows": [[1, 1], [18, 6], [30, 3], [FINAL, 3], [FINAL - 1, 0]], "seed": 908},
        {"kind": "iterdf", "rows": [[0, 5], [10, None]], "seed": 905},
        {"kind": "iterdf", "rows": [[-5, 1]], "seed": 906},
        {"kind": "iterdf", "rows": [[0, 4], [7, 4]], "seed": 907},                                 # no designated row
    ]


def _real_frames(rows):
    import numpy as np
    import pandas as pd
    from pharmpy.tools.external.nonmem import results as R
    df = pd.DataFrame({"ITERATION": [r[0] for r in rows], "P": [float(i) for i in range(len(rows))],
                       "OBJ": [np.nan if r[1] is None else float(r[1]) for r in rows]})
    try:
        out = R._get_iter_df(df)
    except IndexError:
        return "IndexError"
    return [[str(int(a)), "nan" if np.isnan(b) else str(int(b))] for a, b in zip(out["ITERATION"], out["P"])]


def run_iterdf(case, drv, k, mon, tags, c20):
    import math
    import numpy as np
    from pharmpy.model.external.nonmem.table import NONMEMTableFile
    from pharmpy.tools.external.nonmem import results as R
    from harness.common.paths import scratch_root
    rows = case["rows"]
    its = [r[0] for r in rows]
    tags.append("iterdf:" + ("final" if FINAL in its else "nofinal") + ("+zero" if 0 in its else "-zero")
                + ("+nan" if any(r[1] is None for r in rows) else ""))
    # ---- K
    real = _real_frames(rows)
    ans = None
    if drv is not None:
        ans = drv.ask(["iterdf", [[r[0], "nan" if r[1] is None else r[1]] for r in rows]])
        if ans[0] != real:
            k.append(f"_get_iter_df({rows}): model {ans[0]} code {real}")
        tags.append("k:iterdf")
    # ---- Mon (file based; NaN cells are not written by NONMEM)
    if any(r[1] is None for r in rows) or not rows or its.count(FINAL) > 1:
        return                                   # a table has at most one row -1000000000
    tab = {"number": 1, "now": 6, "title": None,
           "hw": 13, "names": ["ITERATION", "THETA1", "OBJ"], "cols": [[13, "r"]] * 3,
           "rows": [[["i", r[0]], c20.sci_cell(1.0 + i), c20.sci_cell(float(r[1]))] for i, r in enumerate(rows)]}
    title = ("TABLE NO.     1: First Order Conditional Estimation with Interaction: Goal Function=MINIMUM VALUE OF OBJECTIVE FUNCTION: "
             "Problem=1 Subproblem=0 Superproblem1=0 Iteration1=0 Superproblem2=0 Iteration2=0")
    lines = [title] + c20.render_body(tab)
    root = scratch_root() / f"c20-iterdf-{case.get('seed', 0)}"
    root.mkdir(parents=True, exist_ok=True)
    try:
        path = root / "run.ext"
        path.write_text("\n".join(lines) + "\n")
        tf = NONMEMTableFile(path)
        try:
            fin, _ = R._parse_ofv(tf, None)
            fin = "nan" if math.isnan(fin) else str(int(round(fin)))
        except IndexError:
            fin = "IndexError"
        if ans is not None and ans[1] != fin:
            k.append(f"_parse_ofv on {rows}: model {ans[1]} code {fin}")
        nonneg = [r for r in rows if r[0] >= 0]
        if FINAL in its and nonneg:
            want = str(next(r[1] for r in rows if r[0] == FINAL))
            tags.append("mon:final-ofv-designated")
            if fin != want:
                last = nonneg[-1][1]
                sorted_file = its[:len(nonneg)] == sorted(x[0] for x in nonneg) and its.count(FINAL) == 1
                if fin == "nan" and str(last) != want:
                    cls = "final-ofv-nan-when-designated-row-differs-from-last-iteration"
                elif not sorted_file:
                    cls = "final-ofv-unordered-ext-table"
                else:
                    cls = "final-ofv-not-designated-row"
                mon.append({"cls": cls, "what": f".ext rows (ITERATION, OBJ) {rows}: reported final OFV {fin}, row -1000000000 has {want}"})
    finally:
        shutil.rmtree(root, ignore_errors=True)
