"""C05 — Compartmental system graph and its differential equations always agree.

K   : Lean model (PharmpyModel/C05/{Graph,Model,Matrix}.lean) vs the real
      CompartmentalSystemBuilder / CompartmentalSystem after EVERY operation of a
      generated operation sequence: node order and node values of to_dict, edge list,
      _order_compartments / compartment_names, compartmental_matrix entries, amounts,
      zero_order_inputs, eqs (exact rational evaluation at seeded points),
      central_compartment, dosing_compartments, error class of refused operations; canonical_ode_rhs as regrouping of
      the monomials of (M*A+u)[i] by key vs the groups of the reported equation.
Mon : the property statement on the real objects (independent of the Lean build):
      one consistent order, eqs == M*A+u, M*A+u == inflow - outflow + input computed from
      get_flow, mass balance, from_dict(to_dict(cs)) == cs, to_compartmental_system(eqs)
      equivalent to cs, frame of every builder operation against a name-keyed reference,
      subs maps flows/doses/lag/F pointwise and does not depend on PYTHONHASHSEED (fresh interpreters).
"""
from __future__ import annotations

import os
import random

ID = "C05"
DRIVER = "drv_c05"
LEAN_TARGETS = ["PharmpyProofs.C05.Properties", "drv_c05"]
PROPERTIES = ["PharmpyProofs/C05/Properties.lean"]
LEAN_SOURCES = ["PharmpyModel/C05/*.lean", "PharmpyProofs/C05/*.lean", "Drivers/C05.lean"]
TIME_LIMIT = {"quick": 900, "thorough": 3000}
CASE_CPU_LIMIT = 60
RULE = ("operation sequences on an empty CompartmentalSystemBuilder: 1-6 (quick) / 1-9 (thorough) distinctly named "
        "compartments (names include CENTRAL, METABOLITE, EFFECT, COMPLEX to reach the central-compartment branches) with "
        "optional bolus/infusion doses (often on several compartments), input (single terms and sums), lag time, bioavailability, sometimes an amount function not derived from the name; random flows (distinct symbols, shared symbols, "
        "rational multiples, sums of 2-3 distinct positive terms on about a third of the compartment-to-compartment flows, a few differences, the same Q or V symbol on several flows, Michaelis-Menten in the source amount and occasionally in another compartment's amount; a few self-loops), 0-3 output flows; then up to 6 (12) "
        "seeded builder operations (add/remove compartment, add/remove flow, move/set/add/remove dose, set lag/F/input, "
        "subs (unpatched; the model relabels in node order; keys that are symbols, amount functions or compound subexpressions of rates, given as str or as Expr), to_dict/from_dict), some through stale compartment "
        "references. Everything is compared after every operation. non-trivial = at least 2 compartments and 1 flow at "
        "some point; distinct = distinct case JSON")
TRUSTED = [
    "Lean 4.33 kernel; axioms propext, Quot.sound, Classical.choice only (audited per theorem each run)",
    "hand-written model PharmpyModel/C05/*.lean tied to statements.py and to networkx 3.6.1 by the correspondence run of this invocation",
    "networkx DiGraph.copy rebuilds predecessor order from (node order, successor order): modelled, compared via central_compartment",
    "sympy/symengine: canonicalisation, subs, expand, collect preserve the value of an expression (compared by exact evaluation)",
    "harness/corr/c05.py (generator, wire conversion of compartments, exact rational evaluation, name-keyed frame reference)",
]
ASSUMPTIONS = [
    "compartment names are distinct (the code sorts sets of compartments by name; with equal names its order is hash dependent)",
    "expressions are compared by exact evaluation at seeded positive rational points, amounts A_X(t) treated as free values",
    "hash independence of CompartmentalSystem.subs is probed in fresh interpreters under PYTHONHASHSEED 1, 2, 3 (system sent as "
    "its to_dict) for every subs step in which at least two compartments change and at least one does not",
    "to_compartmental_system is checked only on systems without self-loops whose rates and inputs are sums of terms that are each positive for positive symbols",
]

NAMES = ["CENTRAL", "DEPOT", "PERIPHERAL1", "PERIPHERAL2", "METABOLITE", "EFFECT", "COMPLEX", "TRANSIT1", "ALPHA", "ZETA", "B2", "A1"]
OUT = "@out"


def budget(tier):
    return int(os.environ.get("VERIF_BUDGET", 0)) or {"quick": 400, "thorough": 1200}[tier]


# ---------------------------------------------------------------- generation

def gen_dose(rng, k):
    admid = rng.choice([1, 1, 2, 3])
    amt = rng.choice(["AMT", "AMT", "D%d" % k, "2*AMT"])
    r = rng.random()
    if r < 0.6:
        return ["bolus", amt, admid]
    if r < 0.8:
        return ["inf", amt, admid, "R%d" % k, None]
    return ["inf", amt, admid, None, "DUR%d" % k]


def gen_term(rng, i, tag):
    """one positive additive term with its own symbols (V1..V3 are deliberately shared between flows)"""
    r = rng.random()
    if r < 0.35:
        return "K%d%s" % (i, tag)
    if r < 0.6:
        return "Q%d%s/V%d" % (i, tag, rng.randint(1, 3))
    if r < 0.75:
        return "KP%d%s*FR%d%s" % (i, tag, i, tag)
    if r < 0.9:
        return "%d*KB%d%s" % (rng.randint(2, 5), i, tag)
    return "KE%d%s*exp(-TH%d%s)" % (i, tag, i, tag)


def gen_amount_rate(rng, i, A, B):
    """a rate that is polynomial / a power / a square root in the source amount A and possibly in another amount B
    (second order elimination, dimerisation, TMDD-like products): M*A then has terms in A**2, A**(3/2), A**2*B, ..."""
    opts = [
        "KD%d*%s" % (i, A),
        "CL%d/V%d + KEL%d*%s" % (i, rng.randint(1, 3), i, A),
        "KQ%d*%s**2" % (i, A),
        "KR%d*sqrt(%s)" % (i, A),
        "KA%d + KB%d*%s + KC%d*%s**2" % (i, i, A, i, A),
        "KD%d*%s/(KM%d + %s)" % (i, A, i, A),
    ]
    if B is not None and B != A:
        opts += ["KON%d*%s" % (i, B), "KX%d*%s*%s" % (i, A, B), "KY%d*%s**2" % (i, B), "KZ%d + KW%d*sqrt(%s)" % (i, i, B)]
    return rng.choice(opts)


def gen_rate(rng, src, i, shared, to_output=False, amts=None):
    A = (amts or {}).get(src, "A_%s(t)" % src)
    r = rng.random()
    if r < 0.16:
        others = sorted(v for k, v in (amts or {}).items() if k != src)
        return gen_amount_rate(rng, i, A, rng.choice(others) if others and rng.random() < 0.4 else None)
    r = rng.random()
    # a sum of 2-3 distinct positive terms (a good share of the compartment-to-compartment flows)
    if r < (0.2 if to_output else 0.35):
        terms = [gen_term(rng, i, t) for t in "abc"[:rng.choice([2, 2, 3])]]
        if shared and rng.random() < 0.4:
            terms[0] = rng.choice(["KS", "2*KS"])
        if rng.random() < 0.15:
            terms.append("VM%d/(KM%d + %s)" % (i, i, A))
        return " + ".join(terms)
    if r < 0.365:
        return "K%da - K%db" % (i, i)   # a difference: not syntactically positive (no equations-back monitor)
    r = rng.random()
    if shared and r < 0.5:
        return rng.choice(["KS", "2*KS", "KS/3"])
    if r < 0.5:
        return "K%d" % i
    if r < 0.65:
        return "CL%d/V%d" % (i, rng.randint(1, 3))
    if r < 0.72:
        return "Q/V%d" % rng.randint(1, 3)   # the same symbol Q on several flows (peripheral pattern)
    if r < 0.8:
        return "%d*Q%d/%d" % (rng.randint(2, 5), i, rng.randint(2, 7))
    if r < 0.92:
        return "VM%d/(KM%d + %s)" % (i, i, A)
    return "K%d*exp(-TH%d)" % (i, i)


def gen_expr_small(rng, tag, k):
    opts = ["%s%d" % (tag, k), "%s%d" % (tag, k), "2*%s%d" % (tag, k), "%s%d/3" % (tag, k), "0" if tag != "F" else "1"]
    if tag == "R":
        opts += ["R%da + R%db" % (k, k), "R%da + 3*R%db/2" % (k, k)]
    return rng.choice(opts)


def gen_case(rng: random.Random, tier: str):
    nmax = 6 if tier == "quick" else 9
    n = rng.choice([1, 2, 2, 3, 3, 3, 4, 4, 5, 6] if tier == "quick" else list(range(1, nmax + 1)))
    names = rng.sample(NAMES, n)
    if rng.random() < 0.6 and "CENTRAL" not in names:
        names[rng.randrange(n)] = "CENTRAL"
    shared = rng.random() < 0.15
    selfloops = rng.random() < 0.06
    nodose = rng.random() < 0.1
    ops = []
    cnt = [0]
    amts = {}   # compartment name -> its amount function (as written in rates)

    def fresh():
        cnt[0] += 1
        return cnt[0]

    # phase 1: compartments
    for nm in names:
        attrs = {"doses": [], "input": "0", "lag": "0", "bio": "1"}
        if not nodose and rng.random() < 0.45:
            attrs["doses"] = [gen_dose(rng, fresh()) for _ in range(rng.choice([1, 1, 1, 2, 3]))]
        if rng.random() < 0.25:
            attrs["input"] = gen_expr_small(rng, "R", fresh())
        if rng.random() < 0.2:
            attrs["lag"] = gen_expr_small(rng, "TL", fresh())
        if rng.random() < 0.2:
            attrs["bio"] = gen_expr_small(rng, "F", fresh())
        if rng.random() < 0.12:
            attrs["amount"] = "X%d(t)" % fresh()   # an amount function not derived from the name
        amts[nm] = attrs.get("amount", "A_%s(t)" % nm)
        ops.append(["addc", nm, attrs])
    # flows (interleaved order is random: edge insertion order matters to networkx)
    pairs = [(a, b) for a in names for b in names if a != b]
    rng.shuffle(pairs)
    p_edge = rng.choice([0.15, 0.3, 0.5, 0.8]) if n > 1 else 0
    if pairs:
        p_edge = min(p_edge, 20.0 / len(pairs))   # at most about 20 flows: dense 9-compartment graphs only cost time
    flows = []
    for a, b in pairs:
        if rng.random() < p_edge:
            flows.append(["addflow", a, b, gen_rate(rng, a, fresh(), shared, amts=amts)])
    if selfloops:
        a = rng.choice(names)
        flows.append(["addflow", a, a, "KSELF"])
    nout = rng.choice([0, 1, 1, 1, 1, 2, 2, 3])
    for a in rng.sample(names, min(nout, n)):
        flows.append(["addflow", a, OUT, gen_rate(rng, a, fresh(), shared, to_output=True, amts=amts)])
    rng.shuffle(flows)
    ops += flows
    # phase 2: edits
    live = list(names)
    nops = rng.randint(0, 6 if tier == "quick" else 12)
    for _ in range(nops):
        if not live:
            break
        r = rng.random()
        a = rng.choice(live)
        b = rng.choice(live)
        stale = rng.random() < 0.05
        tgt = ("~" + a) if stale else a
        if r < 0.08:
            cand = [x for x in NAMES if x not in live]
            if cand:
                nm = rng.choice(cand)
                attrs = {"doses": [gen_dose(rng, fresh())] if rng.random() < 0.4 else [], "input": "0", "lag": "0", "bio": "1"}
                ops.append(["addc", nm, attrs])
                live.append(nm)
                amts[nm] = "A_%s(t)" % nm
                ops.append(["addflow", rng.choice(live), nm, gen_rate(rng, a, fresh(), shared, amts=amts)])
        elif r < 0.14:
            ops.append(["rmc", tgt])
            if not stale:
                live.remove(a)
        elif r < 0.26:
            d = b if rng.random() < 0.8 else OUT
            if d != a or selfloops:
                ops.append(["addflow", a, d, gen_rate(rng, a, fresh(), shared, to_output=(d == OUT), amts=amts)])
        elif r < 0.36:
            ops.append(["rmflow", tgt, b if rng.random() < 0.75 else OUT])
        elif r < 0.48:
            ops.append(["movedose", tgt, b, rng.choice([None, None, 1, 2, 0])])
        elif r < 0.56:
            ops.append(["setdose", tgt, [gen_dose(rng, fresh()) for _ in range(rng.choice([0, 1, 1, 2]))]])
        elif r < 0.64:
            ops.append(["adddose", tgt, [gen_dose(rng, fresh()) for _ in range(rng.choice([1, 1, 2]))]])
        elif r < 0.70:
            ops.append(["rmdose", tgt, rng.choice([None, 1, 2, 0])])
        elif r < 0.76:
            ops.append(["setlag", tgt, gen_expr_small(rng, "TL", fresh())])
        elif r < 0.82:
            ops.append(["setbio", tgt, gen_expr_small(rng, "F", fresh())])
        elif r < 0.88:
            ops.append(["setinput", tgt, gen_expr_small(rng, "R", fresh())])
        elif r < 0.95:
            ops.append(["subs", rng.choice(["AMT", "KS", "sym", "sym", "all", "amount", "amount", "compound", "mixed"]), rng.randrange(1 << 20)])
        else:
            ops.append(["roundtrip"])
    return {"kind": "ops", "ops": ops, "seed": rng.randrange(1 << 30)}


def gen_cases(rng: random.Random, n: int, tier: str):
    return [gen_case(rng, tier) for _ in range(n)]


def _c(nm, doses=(), inp="0", lag="0", bio="1"):
    return ["addc", nm, {"doses": list(doses), "input": inp, "lag": lag, "bio": bio}]


def corpus_cases():
    B1 = ["bolus", "AMT", 1]
    B2 = ["bolus", "AMT", 2]
    return [
        # two output flows, two dosing compartments: central = last predecessor of output
        {"kind": "ops", "seed": 11, "ops": [_c("ALPHA", [B1]), _c("B2", [B2]), ["addflow", "B2", OUT, "KB"],
                                             ["addflow", "ALPHA", OUT, "KA"], ["roundtrip"], ["setlag", "ALPHA", "TL"]]},
        # subs relabels a subset of the compartments: order of the set iteration decides node order and central
        {"kind": "ops", "seed": 12, "ops": [_c("ALPHA", [B1]), _c("B2", [B2]), _c("CENTRAL"), ["addflow", "B2", OUT, "KB"],
                                             ["addflow", "ALPHA", OUT, "KA"], ["addflow", "ALPHA", "CENTRAL", "KC"],
                                             ["subs", "AMT", 5], ["subs", "AMT", 6]]},
        # self-loop: the diagonal subtracts the rate, nothing adds it
        {"kind": "ops", "seed": 13, "ops": [_c("CENTRAL", [B1]), ["addflow", "CENTRAL", "CENTRAL", "KSELF"],
                                             ["addflow", "CENTRAL", OUT, "CL/V"]]},
        # two flows out of one compartment with the same rate
        {"kind": "ops", "seed": 14, "ops": [_c("CENTRAL", [B1]), _c("PERIPHERAL1"), _c("PERIPHERAL2"),
                                             ["addflow", "CENTRAL", "PERIPHERAL1", "KS"], ["addflow", "CENTRAL", "PERIPHERAL2", "KS"],
                                             ["addflow", "PERIPHERAL1", "CENTRAL", "K21"], ["addflow", "CENTRAL", OUT, "CL/V"]]},
        # METABOLITE redirect, upstream compartment with input, disjoint compartment
        {"kind": "ops", "seed": 15, "ops": [_c("DEPOT", [B1]), _c("CENTRAL"), _c("METABOLITE"), _c("ZETA", inp="R1"), _c("A1"),
                                             ["addflow", "DEPOT", "CENTRAL", "KA"], ["addflow", "CENTRAL", "METABOLITE", "KM"],
                                             ["addflow", "CENTRAL", OUT, "CL/V"], ["addflow", "METABOLITE", OUT, "CLM/VM"],
                                             ["addflow", "ZETA", "CENTRAL", "KZ"], ["movedose", "DEPOT", "CENTRAL", None],
                                             ["rmc", "DEPOT"]]},
        # a rate that depends on the amount of a compartment other than its source
        {"kind": "ops", "seed": 17, "ops": [_c("CENTRAL", [B1]), _c("ALPHA"), _c("PERIPHERAL1"), ["addflow", "CENTRAL", "ALPHA", "K1"],
                                             ["addflow", "ALPHA", "PERIPHERAL1", "VM/(KM + A_CENTRAL(t))"],
                                             ["addflow", "CENTRAL", OUT, "CL/V"]]},
        # rates that are sums of several positive terms, between compartments and to the output, with other flows
        # out of the same compartment and a zero-order input
        {"kind": "ops", "seed": 18, "ops": [_c("CENTRAL", [B1]), _c("METABOLITE"), _c("PERIPHERAL1", inp="R1 + R2"),
                                             ["addflow", "CENTRAL", "METABOLITE", "KM1 + KM2"],
                                             ["addflow", "CENTRAL", "PERIPHERAL1", "Q/V1 + KX"],
                                             ["addflow", "PERIPHERAL1", "CENTRAL", "Q/V2"],
                                             ["addflow", "METABOLITE", OUT, "CLM/VM + KE"],
                                             ["addflow", "CENTRAL", OUT, "CL/V1"]]},
        # mixed bolus/infusion doses are re-sorted by the doses property when moved
        {"kind": "ops", "seed": 16, "ops": [_c("DEPOT", [B1, ["inf", "AMT", 2, "R1", None]]), _c("CENTRAL", [B2]),
                                             ["addflow", "DEPOT", "CENTRAL", "KA"], ["addflow", "CENTRAL", OUT, "K"],
                                             ["movedose", "DEPOT", "CENTRAL", 2], ["movedose", "CENTRAL", "CENTRAL", None],
                                             ["rmdose", "CENTRAL", 1], ["movedose", "DEPOT", "CENTRAL", 7]]},
    ]


def shrink(case):
    ops = case["ops"]
    for i in range(len(ops) - 1, -1, -1):
        if len(ops) <= 1:
            break
        c = dict(case)
        c["ops"] = ops[:i] + ops[i + 1:]
        yield c


# ---------------------------------------------------------------- real-code side

def worker_init():
    global sympy, nx, stm, Expr, Bolus, Infusion, Compartment, CompartmentalSystem, CompartmentalSystemBuilder
    global output, to_compartmental_system, exprconv, AppliedUndef
    import sympy  # noqa
    import networkx as nx  # noqa
    from sympy.core.function import AppliedUndef  # noqa
    from pharmpy.basic import Expr  # noqa
    import pharmpy.model.statements as stm  # noqa
    from pharmpy.model import (Bolus, Compartment, CompartmentalSystem, CompartmentalSystemBuilder,  # noqa
                               Infusion, output)
    from pharmpy.model.statements import to_compartmental_system  # noqa
    global PMatrix, _expand_rates, free_images
    from pharmpy.basic import Matrix as PMatrix  # noqa
    from pharmpy.internals.expr.ode import _expand_rates  # noqa
    from pharmpy.internals.expr.leaves import free_images  # noqa
    from harness.common import exprconv  # noqa


def ex(e):
    return exprconv.to_sexp(e)


def mk_dose(d):
    if d[0] == "bolus":
        return Bolus.create(d[1], admid=d[2])
    return Infusion.create(d[1], admid=d[2], rate=d[3], duration=d[4])


def wire_dose(d):
    if isinstance(d, Bolus):
        return ["bolus", ex(d.amount), d.admid]
    return ["inf", ex(d.amount), d.admid, [] if d.rate is None else [ex(d.rate)], [] if d.duration is None else [ex(d.duration)]]


def wire_node(c):
    if c is output:
        return "output"
    return ["comp", c.name, ex(c.amount), [wire_dose(d) for d in c._doses], ex(c.input), ex(c.lag_time), ex(c.bioavailability)]


def _norm(x):
    if isinstance(x, (list, tuple)):
        return [_norm(y) for y in x]
    return str(x)


def comp_fields(c):
    """hashable snapshot of a compartment (for the frame reference)"""
    return (c.name, c.amount, tuple(c._doses), c.input, c.lag_time, c.bioavailability)


def snapshot(g):
    comps = {}
    for n in g.nodes:
        if n is not output:
            comps.setdefault(n.name, []).append(comp_fields(n))
    flows = {}
    for u, v, r in g.edges.data("rate"):
        flows[(u.name, OUT if v is output else v.name)] = r
    return comps, flows


def view_doses(ds):
    ds = tuple(ds)
    if len(ds) > 1:
        return tuple(sorted(ds, key=lambda d: isinstance(d, Infusion), reverse=True))
    return ds


class Sim:
    """the real builder plus bookkeeping"""

    def __init__(self):
        self.cb = CompartmentalSystemBuilder()
        self.last = {}   # name -> most recent Compartment object seen under that name
        self.first = {}  # name -> first object (stale reference source)
        self.subst_checks = []  # (step, atom table, [(wire expr, really substituted expr)]) for the driver's substexpr

    def cur(self, ref):
        """resolve 'NAME' (current object, else last seen) or '~NAME' (first object ever: usually stale)"""
        if ref == OUT:
            return output
        if ref.startswith("~"):
            return self.first.get(ref[1:])
        c = self.cb.find_compartment(ref)
        if c is None:
            c = self.last.get(ref)
        return c

    def remember(self):
        for n in self.cb._g.nodes:
            if n is not output:
                self.last[n.name] = n
                self.first.setdefault(n.name, n)


def observe_real(cs):
    obs = {}
    nodes = list(cs._g.nodes)
    obs["nodes"] = _norm([wire_node(n) for n in nodes])
    obs["edges"] = [(nodes.index(u), nodes.index(v), r) for u, v, r in cs._g.edges.data("rate")]
    obs["names"] = list(cs.compartment_names)
    obs["order"] = _norm([wire_node(n) for n in cs._order_compartments()])
    obs["matrix"] = cs.compartmental_matrix
    obs["amounts"] = list(cs.amounts)
    obs["inputs"] = list(cs.zero_order_inputs)
    obs["eqs"] = None   # filled in for the monitored steps only (the property is slow: sympy Eq + collect)
    try:
        obs["central"] = cs.central_compartment.name
    except ValueError:
        obs["central"] = ["err", "ValueError"]
    try:
        obs["dosing"] = [c.name for c in cs.dosing_compartments]
    except ValueError:
        obs["dosing"] = ["err", "ValueError"]
    return obs


def sym_of(e):
    return exprconv.to_sympy(e)


def eq_pts(a, b, rng):
    a, b = sympy.sympify(a), sympy.sympify(b)
    if a == b:
        return True
    try:
        if sympy.expand(a - b) == 0:   # cheap and exact; evaluation at points decides the rest
            return True
    except Exception:
        pass
    return exprconv.equal_at_points(a, b, rng, npoints=2)


def compare_obs(step, m, real, rng, k):
    """model observation `m` (parsed driver answer: ['obs', [tag, ...], ...]) vs real"""
    mo = {x[0]: x[1:] for x in m[1:]}
    if mo["nodes"] != real["nodes"]:
        k.append(f"step {step}: to_dict node order/values: model {mo['nodes']} code {real['nodes']}")
        return
    me = [(int(i), int(j)) for i, j, _ in mo["edges"]]
    if me != [(i, j) for i, j, _ in real["edges"]]:
        k.append(f"step {step}: edge order: model {me} code {[(i, j) for i, j, _ in real['edges']]}")
        return
    for (i, j, r1), (_, _, r2) in zip(mo["edges"], real["edges"]):
        if not eq_pts(exprconv.from_sexp(r1), sym_of(r2), rng):
            k.append(f"step {step}: rate of edge {i}->{j}: model {r1} code {r2}")
    if mo["names"] != real["names"]:
        k.append(f"step {step}: compartment_names: model {mo['names']} code {real['names']}")
        return
    if mo["order"] != real["order"]:
        k.append(f"step {step}: _order_compartments values differ")
    n = len(real["names"])
    M = real["matrix"]
    if len(mo["matrix"]) != n or (n and M.rows != n):
        k.append(f"step {step}: matrix shape")
        return
    for i in range(n):
        for j in range(n):
            a = exprconv.from_sexp(mo["matrix"][i][j])
            b = sym_of(M[i, j])
            if not eq_pts(a, b, rng):
                k.append(f"step {step}: matrix[{i},{j}]: model {a} code {b}")
    for key in ("amounts", "inputs"):
        for i in range(n):
            a = exprconv.from_sexp(mo[key][i])
            b = sym_of(real[key][i])
            if not eq_pts(a, b, rng):
                k.append(f"step {step}: {key}[{i}]: model {a} code {b}")
    for i in range(n if real["eqs"] is not None else 0):
        a = exprconv.from_sexp(mo["eqs"][i])
        b = real["eqs"][i]._sympy_().rhs
        if not eq_pts(a, b, rng):
            k.append(f"step {step}: eqs[{i}].rhs: model {a} code {b}")
    mc = mo["central"][0]
    if mc != real["central"]:
        k.append(f"step {step}: central_compartment: model {mc} code {real['central']}")
    md = mo["dosing"][0]
    if md != real["dosing"]:
        k.append(f"step {step}: dosing_compartments: model {md} code {real['dosing']}")


# ---------------------------------------------------------------- monitors

def has_selfloop(cs):
    return any(u == v for u, v in cs._g.edges)


def mon_system(step, cs, real, rng, mon, tags, do_des):
    """the property statement on one real CompartmentalSystem"""
    names = real["names"]
    n = len(names)
    comps = [c for c in cs._g.nodes if c is not output]
    # one consistent order, a permutation of the compartments
    if sorted(names) != sorted(c.name for c in comps) or len(set(names)) != n:
        mon.append({"cls": "order-not-permutation", "what": f"step {step}: compartment_names {names} is not a permutation of "
                    f"the compartments {sorted(c.name for c in comps)}"})
        return
    byname = {c.name: c for c in comps}
    if len(byname) != len(comps):
        tags.append("duplicate-names")
        return
    order = [byname[x] for x in names]
    M = real["matrix"]
    A = [sym_of(a) for a in real["amounts"]]
    U = [sym_of(u) for u in real["inputs"]]
    if len(A) != n or len(U) != n or (n and (M.rows != n or M.cols != n)) or len(real["eqs"]) != n:
        mon.append({"cls": "inconsistent-sizes", "what": f"step {step}: sizes differ: names {n}, amounts {len(A)}, inputs {len(U)}"})
        return
    for i, c in enumerate(order):
        if sym_of(c.amount) != A[i] or sym_of(c.input) != U[i]:
            mon.append({"cls": "inconsistent-order", "what": f"step {step}: position {i} is {c.name} in compartment_names but "
                        f"amounts/zero_order_inputs have {A[i]}, {U[i]}"})
            return
    sl = has_selfloop(cs)
    if sl:
        tags.append("self-loop")
    if sum(1 for c in order if c.doses) >= 2:
        tags.append("sys:dosing>=2")
    if any(c.input != 0 and (cs.get_compartment_outflows(c) or cs.get_compartment_inflows(c)) for c in order):
        tags.append("sys:input+flows")
    if any(str(c.amount) != f"A_{c.name}(t)" for c in order):
        tags.append("sys:custom-amount")
    t = sym_of(cs.t)
    flows = {(u, v): sym_of(cs.get_flow(u, v)) for u, v in cs._g.edges}
    for c in order[:2]:   # the "no such flow" answer of get_flow itself, on a few pairs
        for d in order[:3]:
            if not cs._g.has_edge(c, d) and cs.get_flow(c, d) != 0:
                mon.append({"cls": "get-flow-missing-edge", "what": f"step {step}: get_flow({c.name}, {d.name}) = {cs.get_flow(c, d)} without such a flow"})
    flow = lambda a, b: flows.get((a, b), sympy.Integer(0))  # noqa: E731
    tot = sympy.Integer(0)
    for i, c in enumerate(order):
        ma = sum((sym_of(M[i, j]) * A[j] for j in range(n)), sympy.Integer(0))
        eq = real["eqs"][i]._sympy_()
        if eq.lhs != sympy.Derivative(A[i], t):
            mon.append({"cls": "eqs-lhs", "what": f"step {step}: eqs[{i}].lhs is {eq.lhs}, expected d/dt {A[i]}"})
        if not eq_pts(eq.rhs, ma + U[i], rng):
            mon.append({"cls": "eqs-not-matrix-form", "what": f"step {step}: eqs[{i}].rhs = {eq.rhs} but (M*A+u)[{i}] = {ma + U[i]}"})
        infl = sum((flow(d, c) * sym_of(d.amount) for d in order), sympy.Integer(0))
        outf = sum((flow(c, d) for d in order), sympy.Integer(0)) + flow(c, output)
        spec = infl - outf * A[i] + U[i]
        if not eq_pts(ma + U[i], spec, rng):
            cls = "self-loop-not-conserved" if sl else "rhs-not-inflow-minus-outflow"
            mon.append({"cls": cls, "what": f"step {step}: d{A[i]}/dt = {sympy.expand(ma + U[i])} but inflows - outflows + input "
                        f"from get_flow = {sympy.expand(spec)}"})
        tot = tot + ma
    outsum = sum((flow(c, output) * sym_of(c.amount) for c in order), sympy.Integer(0))
    # the REPORTED equations (after canonical_ode_rhs): each one against the graph, and their total
    eqtot = sympy.Integer(0)
    for i, c in enumerate(order):
        rhs_i = real["eqs"][i]._sympy_().rhs
        eqtot = eqtot + rhs_i - U[i]
        if not sl:
            infl = sum((flow(d, c) * sym_of(d.amount) for d in order), sympy.Integer(0))
            outf = sum((flow(c, d) for d in order), sympy.Integer(0)) + flow(c, output)
            if not eq_pts(rhs_i, infl - outf * A[i] + U[i], rng):
                mon.append({"cls": "eqs-not-inflow-minus-outflow", "what": f"step {step}: reported d{A[i]}/dt = {rhs_i} but inflows - "
                            f"outflows + input from get_flow = {sympy.expand(infl - outf * A[i] + U[i])}"})
    if n and not sl and not eq_pts(eqtot, -outsum, rng):
        mon.append({"cls": "eqs-mass-balance", "what": f"step {step}: the reported equations (inputs aside) sum to {sympy.expand(eqtot)}, "
                    f"minus the output flows = {sympy.expand(-outsum)}"})
    if any(sym_of(r).has(*A) for _, _, r in cs._g.edges.data("rate")) if A else False:
        tags.append("sys:amount-dependent-rate")
        if any(any(f.is_Pow and f.base in A for f in sympy.preorder_traversal(sympy.expand(real["eqs"][i]._sympy_().rhs)))
               for i in range(n)):
            tags.append("sys:eqs-with-power-of-amount")
    if n and not eq_pts(tot, -outsum, rng):
        cls = "self-loop-not-conserved" if sl else "mass-balance"
        mon.append({"cls": cls, "what": f"step {step}: sum of all rates of change without inputs = {sympy.expand(tot)}, "
                    f"minus the output flows = {sympy.expand(-outsum)}"})
    # serialisation
    try:
        cs2 = CompartmentalSystem.from_dict(cs.to_dict())
    except Exception as e:
        mon.append({"cls": "dict-roundtrip-raises", "what": f"step {step}: from_dict(to_dict(cs)) raised {type(e).__name__}: {e}"})
        cs2 = None
    if cs2 is not None:
        try:
            same = (cs2 == cs)
        except ValueError as e:
            # == itself raises when dosing_compartments raises (no dose yet / no output flow)
            mon.append({"cls": "eq-raises-without-dosing-compartment", "what": f"step {step}: from_dict(to_dict(cs)) == cs raised "
                        f"ValueError({e}) for a system with compartments {names}, dosing {real['dosing']}, central {real['central']}"})
            same = nx.to_dict_of_dicts(cs2._g) == nx.to_dict_of_dicts(cs._g) and cs2.t == cs.t
        if not same:
            mon.append({"cls": "dict-roundtrip", "what": f"step {step}: from_dict(to_dict(cs)) != cs"})
        elif cs2.compartment_names != names or cs2.eqs != real["eqs"] or cs2.to_dict() != cs.to_dict():
            mon.append({"cls": "dict-roundtrip-observables", "what": f"step {step}: from_dict(to_dict(cs)) == cs but names/eqs/to_dict differ: "
                        f"{cs2.compartment_names} vs {names}"})
    # equations back to a system
    if do_des and n and not sl:
        if all_terms_positive(cs, order):
            tags.append("q:des")
            if any(len(sympy.Add.make_args(sympy.expand(sym_of(r)))) > 1 for u, v, r in cs._g.edges.data("rate") if v is not output):
                tags.append("q:des-sum-rate-between-compartments")
            mon_des(step, cs, order, real, rng, mon, tags)
        else:
            tags.append("des-skipped:non-positive-term")


def out_terms(cs, c):
    """additive terms of expand(rate * A_c) for every flow out of c (output included), with the destination"""
    out = []
    for d, r in cs.get_compartment_outflows(c):
        for t in sympy.Add.make_args(sympy.expand(sym_of(r) * sym_of(c.amount))):
            out.append((d, t))
    return out


def rates_commensurable(cs, order):
    """some compartment has two DIFFERENT outgoing flows (output included) with additive terms that are rational
    multiples of each other: sympy merges them into one term of the source equation (-2*KS*A), which the term
    matching of to_compartmental_system then cannot find"""
    for c in order:
        ts = out_terms(cs, c)
        for i in range(len(ts)):
            for j in range(i + 1, len(ts)):
                if ts[i][0] != ts[j][0] and sympy.simplify(ts[i][1] / ts[j][1]).is_Rational:
                    return True
    return False


def all_terms_positive(cs, order):
    """every additive term of every rate and input is positive for positive symbols (what 'positive rates' means to
    to_compartmental_system, which classifies term by term)"""
    for c in order:
        for _, t in out_terms(cs, c):
            if not stm._is_positive(t):
                return False
        for t in sympy.Add.make_args(sympy.expand(sym_of(c.input))):
            if t != 0 and not stm._is_positive(t):
                return False
    return True


def rate_uses_other_amount(cs, order):
    """some flow's rate contains the amount function of a compartment other than its source"""
    amounts = {sym_of(c.amount): c for c in order}
    for u, v, r in cs._g.edges.data("rate"):
        for f in sym_of(r).atoms(AppliedUndef):
            if f in amounts and amounts[f] != u:
                return True
    return False


def mon_des(step, cs, order, real, rng, mon, tags):
    names_map = {c.amount: c.name for c in order}
    eqs = [e._sympy_() for e in real["eqs"]]
    try:
        cs3 = to_compartmental_system(names_map, eqs)
    except Exception as e:
        mon.append({"cls": "des-raises", "what": f"step {step}: to_compartmental_system(eqs) raised {type(e).__name__}: {e}"})
        return
    by3 = {c.name: c for c in cs3._g.nodes if c is not output}
    bad = None
    if sorted(by3) != sorted(c.name for c in order):
        bad = f"compartments {sorted(by3)}"
    else:
        for c in order:
            for d in list(order) + [output]:
                d3 = output if d is output else by3[d.name]
                f1, f3 = sym_of(cs.get_flow(c, d)), sym_of(cs3.get_flow(by3[c.name], d3))
                if not eq_pts(f1, f3, rng):
                    bad = f"flow {c.name}->{'output' if d is output else d.name} is {f3}, was {f1}"
                    break
            if bad:
                break
            if not eq_pts(sym_of(c.input), sym_of(by3[c.name].input), rng):
                bad = f"input of {c.name} is {by3[c.name].input}, was {c.input}"
                break
    if bad:
        if rate_uses_other_amount(cs, order):
            cls = "des-rate-depends-on-other-amount"
        elif rates_commensurable(cs, order):
            cls = "des-commensurable-outflows"
        else:
            cls = "des-not-equivalent"
        mon.append({"cls": cls, "what": f"step {step}: to_compartmental_system(eqs(cs)) is not equivalent to cs: {bad}; eqs = {eqs}"})


def run_case(case, drv):
    rng = random.Random(case["seed"])
    k, mon, tags = [], [], []
    sim = Sim()
    wire_ops = []
    real_steps = []  # (status, obs, cs)
    nontrivial = False
    cs0 = CompartmentalSystem(sim.cb)
    real_steps.append(("ok", observe_real(cs0), cs0))
    for op in case["ops"]:
        kind = op[0]
        tags.append("op:" + kind)
        g = sim.cb._g
        before = snapshot(g)
        w = None
        status = "ok"
        expect = None  # (comps, flows) expected after the op by the reference semantics, when applicable
        try:
            if kind == "addc":
                a = op[2]
                c = Compartment.create(op[1], amount=a.get("amount"), doses=tuple(mk_dose(d) for d in a["doses"]),
                                       input=a["input"], lag_time=a["lag"], bioavailability=a["bio"])
                w = ["addc", wire_node(c)]
                sim.cb.add_compartment(c)
            elif kind == "rmc":
                c = sim.cur(op[1])
                if c is None:
                    tags.append("op-skipped")
                    continue
                w = ["rmc", wire_node(c)]
                sim.cb.remove_compartment(c)
            elif kind == "addflow":
                s, d = sim.cur(op[1]), sim.cur(op[2])
                if s is None or d is None or s not in g or d not in g:
                    tags.append("op-skipped")
                    continue
                rate = Expr(op[3])
                w = ["addflow", wire_node(s), wire_node(d), ex(rate)]
                sim.cb.add_flow(s, d, op[3])
            elif kind == "rmflow":
                s, d = sim.cur(op[1]), sim.cur(op[2])
                if s is None or d is None:
                    tags.append("op-skipped")
                    continue
                w = ["rmflow", wire_node(s), wire_node(d)]
                sim.cb.remove_flow(s, d)
            elif kind == "movedose":
                s, d = sim.cur(op[1]), sim.cur(op[2])
                if s is None or d is None:
                    tags.append("op-skipped")
                    continue
                w = ["movedose", wire_node(s), wire_node(d), "none" if op[3] is None else op[3]]
                sim.cb.move_dose(s, d, admid=op[3])
            elif kind in ("setdose", "adddose"):
                c = sim.cur(op[1])
                if c is None or (kind == "adddose" and not op[2]):
                    tags.append("op-skipped")
                    continue
                ds = tuple(mk_dose(d) for d in op[2])
                w = [kind, wire_node(c), [wire_dose(d) for d in ds]]
                (sim.cb.set_dose if kind == "setdose" else sim.cb.add_dose)(c, ds)
            elif kind == "rmdose":
                c = sim.cur(op[1])
                if c is None:
                    tags.append("op-skipped")
                    continue
                w = ["rmdose", wire_node(c), "none" if op[2] is None else op[2]]
                sim.cb.remove_dose(c, admid=op[2])
            elif kind in ("setlag", "setbio", "setinput"):
                c = sim.cur(op[1])
                if c is None:
                    tags.append("op-skipped")
                    continue
                w = [kind, wire_node(c), ex(Expr(op[2]))]
                {"setlag": sim.cb.set_lag_time, "setbio": sim.cb.set_bioavailability, "setinput": sim.cb.set_input}[kind](c, op[2])
            elif kind == "subs":
                w = do_subs(op, sim, rng, mon, tags, len(real_steps))
                if w is None:
                    tags.append("op-skipped")
                    continue
            elif kind == "roundtrip":
                cs = CompartmentalSystem(sim.cb)
                sim.cb = CompartmentalSystemBuilder(CompartmentalSystem.from_dict(cs.to_dict()))
                w = ["roundtrip"]
            else:
                raise RuntimeError(f"unknown op {kind}")
        except ValueError:
            status = ["err", "ValueError"]
        except nx.NetworkXError:
            status = ["err", "NetworkXError"]
        except nx.NetworkXUnfeasible:
            # relabel_nodes refuses a cyclic mapping ({S: D, D: S}).  Only reachable when source and destination are two
            # different objects with the same name (a stale reference: move_dose(old CENTRAL, current CENTRAL)); a refusal
            # of networkx, the builder stays unchanged (checked below); the model answers `unsupported` there
            status = ["err", "NetworkXUnfeasible"]
        except Exception as e:
            status = ["err", type(e).__name__]
            mon.append({"cls": "internal-error", "what": f"step {len(real_steps)}: {op} raised {type(e).__name__}: {e}"})
        if status != "ok":
            tags.append("refused:" + status[1])
            if snapshot(sim.cb._g) != before:
                mon.append({"cls": "refused-op-mutates", "what": f"step {len(real_steps)}: {op} raised {status[1]} but changed the builder"})
        sim.remember()
        if w is None:
            raise RuntimeError(f"harness: operation {op} failed before its wire form was built ({status})")
        wire_ops.append(w)
        cs = CompartmentalSystem(sim.cb)
        real = observe_real(cs)
        real_steps.append((status, real, cs))
        step = len(real_steps) - 1
        if status == "ok":
            mon_frame(step, op, before, snapshot(sim.cb._g), sim, mon, tags)
        ncomp = len(real["names"])
        tags.append(f"n={ncomp}")
        if ncomp >= 2 and real["edges"]:
            nontrivial = True
    # monitors on the final system and on two seeded intermediate ones (all of them would repeat mostly equal systems)
    idxs = sorted({len(real_steps) - 1} | set(rng.sample(range(len(real_steps)), min(2, len(real_steps)))))
    for i in idxs:
        st, real, cs = real_steps[i]
        real["eqs"] = cs.eqs
        mon_system(i, cs, real, rng, mon, tags, do_des=(i == len(real_steps) - 1 or rng.random() < 0.5))
    for st, real, cs in real_steps:
        if real["central"] == ["err", "ValueError"]:
            tags.append("order:fallback-no-central" if real["dosing"] == ["err", "ValueError"] else "order:?")
        elif real["dosing"] == ["err", "ValueError"]:
            tags.append("order:fallback-no-dose")
        else:
            tags.append("order:bfs")
    # correspondence
    if drv is not None:
        ans = drv.ask(["trace", wire_ops])
        if not isinstance(ans, list) or (ans and ans[0] == "err"):
            k.append(f"driver refused the trace: {ans}")
        elif len(ans) != len(real_steps):
            k.append(f"driver returned {len(ans)} steps for {len(real_steps)}")
        else:
            for step, (m, (status, real, cs)) in enumerate(zip(ans, real_steps)):
                ms_ = ["err", "NetworkXUnfeasible"] if m[0] == ["err", "unsupported"] else m[0]
                if ms_ != _norm(status):
                    k.append(f"step {step} ({wire_ops[step-1][0] if step else 'init'}): status model {m[0]} code {status}")
                    break
                compare_obs(step, m[1], real, rng, k)
                if k:
                    break
            for step, table, pairs in ([] if k else sim.subst_checks):
                for w_e, real_e in pairs:
                    m_e = exprconv.from_sexp(drv.ask(["substexpr", table, w_e]))
                    tags.append("q:substexpr")
                    if not eq_pts(m_e, sym_of(real_e), rng):
                        k.append(f"step {step}: substitution {table} of {w_e}: model {m_e} code {real_e}")
                        break
            if not k:
                for i in idxs:
                    k_collect(i, real_steps[i][2], real_steps[i][1], drv, rng, k, tags)
    return {"k": k, "mon": mon, "tags": tags, "nontrivial": nontrivial}


def monomials(expr, syms, do_expand=True):
    """sum -> [(key, coefficient)] as sympy.collect(expr, syms) forms its keys: for each term the FIRST pattern of `syms`
    (sorted amount functions) that occurs as a factor with a rational exponent gives the key (that power); every other
    factor, other amounts included, belongs to the coefficient; no pattern -> key 1"""
    out = []
    e = sympy.expand(expr) if do_expand else expr
    for term in sympy.Add.make_args(e):
        factors = list(sympy.Mul.make_args(term))
        key = sympy.Integer(1)
        for sym in syms:
            hit = [f for f in factors if f.as_base_exp()[0] == sym and f.as_base_exp()[1].is_Rational]
            if hit:
                key = sympy.Mul(*hit)
                factors = [f for f in factors if f not in hit]
                break
        out.append((key, sympy.Mul(*factors)))
    return out


def k_collect(step, cs, real, drv, rng, k, tags):
    """canonical_ode_rhs = collect(_expand_rates(rhs), amounts).  (1) the terms of _expand_rates(rhs) must have the value of
    the matrix entry (M*A+u)[i] computed by the harness; (2) the model regroups exactly those monomials by key (key = product
    of the rational powers of amount functions in a term, as sympy.collect forms it) and its groups are compared, key by
    key, with the groups read off the top-level terms of the equation the code reports."""
    n = len(real["names"])
    if n == 0:
        return
    M = real["matrix"]
    A = [sym_of(a) for a in real["amounts"]]
    U = [sym_of(u) for u in real["inputs"]]
    rows = list(cs.compartmental_matrix @ PMatrix(list(cs.amounts)) + cs.zero_order_inputs)   # as `eqs` computes them
    for i in range(n):
        entry = sum((sym_of(M[i, j]) * A[j] for j in range(n)), sympy.Integer(0)) + U[i]
        rhs_in = rows[i]._sympy_()
        fi = free_images(rhs_in)
        expanded = _expand_rates(rhs_in, fi)
        fi = sorted(fi, key=str)
        ms = monomials(expanded, fi, do_expand=False) if expanded != 0 else []
        if not eq_pts(sum((key * c for key, c in ms), sympy.Integer(0)), entry, rng):
            k.append(f"step {step}: the expanded right-hand side {expanded} does not have the value of (M*A+u)[{i}] = {entry}")
        ans = drv.ask(["collect", [[str(key), ex(c)] for key, c in ms]])
        model = {}
        for key, c in ans:
            model[key] = exprconv.from_sexp(c)
        if len(model) != len(ans):
            k.append(f"step {step}: collect: model repeats a key: {[a[0] for a in ans]}")
        code = {}
        rhs = real["eqs"][i]._sympy_().rhs
        for key, c in (monomials(rhs, fi, do_expand=False) if rhs != 0 else []):
            code[str(key)] = code.get(str(key), sympy.Integer(0)) + c
        tags.append("q:collect")
        if len(ms) >= 2 and any(key.is_Pow for key, _ in ms):
            tags.append("q:collect-power-key-in-sum")
        for key in sorted(set(model) | set(code)):
            a, b = model.get(key, sympy.Integer(0)), code.get(key, sympy.Integer(0))
            if not eq_pts(a, b, rng):
                k.append(f"step {step}: eqs[{i}] = canonical_ode_rhs(...): coefficient of {key}: model {a} code {b}")


def subs_map(which, cs, rng):
    """a substitution as {str: str} (JSON-able) and the form in which it is handed to subs: 'str' keys/values, or 'expr'
    (Expr keys and values, as pharmpy's own callers do: odes.subs({numer: ...})).  Kinds of keys: plain symbols,
    amount functions of compartments (A_CENTRAL(t) -> A_CENTRALN(t)), compound subexpressions of rates (CL5/V2 -> KC)."""
    syms = sorted((str(s) for s in cs.free_symbols if str(s) != "t"))
    comps = [c for c in cs._g.nodes if c is not output]
    mp = {}

    def sym_keys(k):
        for s_ in rng.sample(syms, min(len(syms), k)):
            mp[s_] = s_ + "_N"

    def amount_keys(k):
        for c in rng.sample(comps, min(len(comps), k)):
            a = str(c.amount)
            if a.endswith("(t)"):
                mp[a] = a[:-3] + "N(t)"

    def compound_keys(k):
        cands = []
        for _, _, r in cs._g.edges.data("rate"):
            e = sym_of(r)
            if not e.is_Atom and not isinstance(e, AppliedUndef):
                cands.append(e)
                cands += [x for x in e.args if not x.is_Atom and not isinstance(x, AppliedUndef) and not x.is_Number]
        cands = sorted({str(c_) for c_ in cands})
        for i, key in enumerate(rng.sample(cands, min(len(cands), k))):
            mp[key] = "KC%d_N" % i

    if which == "AMT":
        if "AMT" in syms:
            mp["AMT"] = "AMT_N"
    elif which == "KS":
        if "KS" in syms:
            mp["KS"] = "KS_N"
    elif which == "all":
        sym_keys(len(syms))
    elif which == "amount":
        amount_keys(rng.randint(1, 2))
        if rng.random() < 0.5:
            sym_keys(1)
    elif which == "compound":
        compound_keys(rng.randint(1, 2))
        if rng.random() < 0.3:
            sym_keys(1)
    elif which == "mixed":
        amount_keys(1)
        compound_keys(1)
        sym_keys(rng.randint(0, 2))
    else:
        sym_keys(rng.randint(1, 3))
    if not mp:
        return None, None
    return mp, rng.choice(["str", "expr", "expr"])


def central_name(cs):
    try:
        return cs.central_compartment.name
    except ValueError:
        return "none"


SUBS_PROBE = r"""
import json, sys
from pharmpy.model import CompartmentalSystem
d, mp = json.load(sys.stdin)
cs2 = CompartmentalSystem.from_dict(d).subs(mp)
try:
    central = cs2.central_compartment.name
except ValueError:
    central = None
print(json.dumps([cs2.compartment_names, [c.get('name', '@out') for c in cs2.to_dict()['compartments']], central]))
"""


def subs_in_fresh_interpreters(cs, mp, hashseeds=(1, 2, 3)):
    """cs.subs(mp) evaluated in fresh interpreters under different PYTHONHASHSEED values (the system travels as its
    to_dict): returns the list of [compartment_names, to_dict node order, central] answers"""
    import json
    import subprocess
    import sys
    payload = json.dumps([cs.to_dict(), mp])
    out = []
    for hs in hashseeds:
        env = dict(os.environ, PYTHONHASHSEED=str(hs))
        p = subprocess.run([sys.executable, "-c", SUBS_PROBE], input=payload, capture_output=True, text=True, env=env, timeout=300)
        if p.returncode != 0:
            raise RuntimeError("subs probe failed: " + p.stderr[-500:])
        out.append(json.loads(p.stdout.strip().splitlines()[-1]))
    return out


def do_subs(op, sim, rng, mon, tags, step):
    """CompartmentalSystem.subs on the real code, unpatched.  Returns the wire op (tables rate -> substituted rate and
    compartment -> substituted compartment, sorted by name: the ORDER of relabelling is the model's own), and replaces
    the builder by one made from the substituted system."""
    cs = CompartmentalSystem(sim.cb)
    orng = random.Random(op[2])
    mp_str, form = subs_map(op[1], cs, orng)
    if mp_str is None:
        return None
    mp = dict(mp_str) if form == "str" else {Expr(a): Expr(b) for a, b in mp_str.items()}
    tags.append("subs:keys-" + form)
    comps = [c for c in cs._g.nodes if c is not output]
    amount_strs = {str(c.amount) for c in comps}
    if any(a in amount_strs for a in mp_str):
        tags.append("subs:amount-key")
        if any(sym_of(r).has(*[sym_of(c.amount) for c in comps if str(c.amount) in mp_str]) for _, _, r in cs._g.edges.data("rate")):
            tags.append("subs:amount-key-in-a-rate")
    atom_key = lambda a: sym_of(Expr(a)).is_Symbol or isinstance(sym_of(Expr(a)), AppliedUndef)  # noqa: E731
    if any(not atom_key(a) for a in mp_str):
        tags.append("subs:compound-key")
    cs2 = cs.subs(mp)
    changed = [c for c in comps if c.subs(mp) != c]
    # monitor: the result must not depend on hash randomisation.  Witness class of the former defect: at least two
    # compartments change and at least one does not (then networkx relabels in reversed mapping order and the mapping
    # was built from a set).  Checked in fresh interpreters under three PYTHONHASHSEED values.
    if len(changed) >= 2 and len(changed) < len(comps):
        tags.append("subs:hashseed-probe")
        here = [cs2.compartment_names, [getattr(c, "name", "@out") for c in cs2._g.nodes], central_name(cs2)]
        here[2] = None if here[2] == "none" else here[2]
        answers = subs_in_fresh_interpreters(cs, mp_str)
        distinct = []
        for a in [here] + answers:
            if a not in distinct:
                distinct.append(a)
        if len(distinct) > 1:
            mon.append({"cls": "subs-depends-on-set-order", "what": f"step {step}: cs.subs({mp}) depends on PYTHONHASHSEED: "
                        f"[compartment_names, node order, central] is one of {distinct}; before: {cs.compartment_names}"})
    # monitor: flows, doses, lag, F mapped pointwise
    by2 = {c.name: c for c in cs2._g.nodes if c is not output}
    ok = sorted(by2) == sorted(c.name for c in comps)
    what = "compartments changed"
    if ok:
        for c in comps:
            c2 = by2[c.name]
            if c2 != c.subs(mp):
                ok, what = False, f"compartment {c.name} is {c2!r}, expected {c.subs(mp)!r}"
                break
            for d in comps + [output]:
                d2 = output if d is output else by2[d.name]
                if cs2.get_flow(c2, d2) != cs.get_flow(c, d).subs(mp):
                    ok, what = False, f"flow {c.name}->{getattr(d, 'name', 'output')} is {cs2.get_flow(c2, d2)}"
                    break
            if not ok:
                break
        if ok and len(list(cs2._g.edges)) != len(list(cs._g.edges)):
            ok, what = False, "number of flows changed"
    if not ok:
        mon.append({"cls": "subs-changes-structure", "what": f"step {step}: cs.subs({mp}): {what}"})
    if sorted(by2) == sorted(c.name for c in comps):
        # the equations of cs.subs(s) are s applied to the equations of cs (matched by compartment), and the substituted
        # system is closed over its own amounts vector whenever the original was
        e1 = {n_: e._sympy_().rhs for n_, e in zip(cs.compartment_names, cs.eqs)}
        e2 = {n_: e._sympy_().rhs for n_, e in zip(cs2.compartment_names, cs2.eqs)}
        # (for keys that are atoms only: replacing a compound subexpression does not commute with the arithmetic that
        # forms the equations, CL/V is no longer a subterm of CL*A/V)
        for n_ in (e1 if all(atom_key(a) for a in mp_str) else []):
            want = sym_of(Expr(e1[n_]).subs(mp))
            if not eq_pts(want, e2[n_], rng):
                mon.append({"cls": "subs-equations-do-not-commute", "what": f"step {step}: cs.subs({mp_str}): equation of {n_} is "
                            f"{e2[n_]}, the substituted original is {want}"})
                break
        am1 = {sym_of(c.amount) for c in comps}
        am2 = {sym_of(c.amount) for c in cs2._g.nodes if c is not output}
        f1 = set().union(*[e.atoms(AppliedUndef) for e in e1.values()]) if e1 else set()
        f2 = set().union(*[e.atoms(AppliedUndef) for e in e2.values()]) if e2 else set()
        if f1 <= am1 and not f2 <= am2:
            mon.append({"cls": "subs-not-closed", "what": f"step {step}: after cs.subs({mp_str}) the equations mention "
                        f"{sorted(map(str, f2 - am2))}, not in the amounts vector {sorted(map(str, am2))}"})
    # atom-level K: when every key is a symbol or an applied function the model substitutes the wire expressions itself
    if all(atom_key(a) for a in mp_str):
        table = [[str(sym_of(Expr(a))), ex(Expr(b))] for a, b in sorted(mp_str.items())]
        pairs = [(ex(r), r.subs(mp)) for _, _, r in cs._g.edges.data("rate")]
        pairs += [(ex(c.input), c.subs(mp).input) for c in comps] + [(ex(c.amount), c.subs(mp).amount) for c in comps]
        sim.subst_checks.append((step, table, pairs))
    rates = []
    for _, _, r in cs._g.edges.data("rate"):
        pr = [ex(r), ex(r.subs(mp))]
        if pr not in rates:
            rates.append(pr)
    mapping = [[wire_node(c), wire_node(c.subs(mp))] for c in sorted(comps, key=lambda c: c.name)]
    sim.cb = CompartmentalSystemBuilder(cs2)
    tags.append("subs:some-unchanged" if any(c.subs(mp) == c for c in comps) else "subs:all-changed")
    return ["subs", rates, mapping]


def mon_frame(step, op, before, after, sim, mon, tags):
    """frame of one successful builder operation against name-keyed reference semantics"""
    kind = op[0]
    if kind in ("subs", "roundtrip"):
        if kind == "roundtrip" and before != after:
            mon.append({"cls": "dict-roundtrip", "what": f"step {step}: from_dict(to_dict(cs)) changed compartments or flows"})
        return
    bc, bf = before
    ac, af = after
    if any(len(v) > 1 for v in bc.values()) or any(len(v) > 1 for v in ac.values()):
        tags.append("duplicate-names")
        return
    bc = {nm: v[0] for nm, v in bc.items()}
    ac = {nm: v[0] for nm, v in ac.items()}
    ec, ef = dict(bc), dict(bf)
    stale = any(isinstance(x, str) and x.startswith("~") for x in op[1:3])

    def target(ref):
        """the referenced object is the one currently in the builder?"""
        nm = ref.lstrip("~")
        obj = sim.first.get(nm) if ref.startswith("~") else None
        return nm, (not ref.startswith("~")) or (nm in bc and obj is not None and comp_fields(obj) == bc[nm])

    def setf(nm, **kw):
        name, amount, doses, inp, lag, bio = ec[nm]
        d = {"doses": doses, "input": inp, "lag": lag, "bio": bio}
        d.update(kw)
        ec[nm] = (name, amount, tuple(d["doses"]), Expr(d["input"]), Expr(d["lag"]), Expr(d["bio"]))

    if kind == "addc":
        a = op[2]
        if op[1] not in ec:
            ec[op[1]] = (op[1], Expr(a["amount"]) if a.get("amount") else Expr.function(f"A_{op[1]}", "t"), tuple(mk_dose(d) for d in a["doses"]), Expr(a["input"]),
                         Expr(a["lag"]), Expr(a["bio"]))
    elif kind == "rmc":
        nm, live = target(op[1])
        if live:
            ec.pop(nm, None)
            ef = {e: r for e, r in ef.items() if nm not in e}
    elif kind == "addflow":
        ef[(op[1], op[2])] = Expr(op[3])
    elif kind == "rmflow":
        nm, live = target(op[1])
        if live:
            ef.pop((nm, op[2]), None)
    else:
        nm, live = target(op[1])
        if kind == "movedose" and op[2] not in bc:
            # a destination object that is no longer in the builder (removed compartment): networkx ignores the unknown
            # key of the mapping, so the source loses the doses and nobody receives them.  Like the stale source below this
            # is a call with a compartment that is not part of the system; the API does not define it, no frame is
            # demanded (model and code are still compared by K)
            tags.append("movedose-destination-not-in-builder")
            return
        if kind == "movedose" and (not live or nm not in bc):
            # a source object that is not in the builder: the API does not say what happens (the code adds its
            # doses to the destination); model and code are still compared by K, no frame is demanded
            tags.append("movedose-stale-source")
            return
        if live and nm in ec:
            doses = view_doses(ec[nm][2])
            if kind == "setdose":
                setf(nm, doses=tuple(mk_dose(d) for d in op[2]))
            elif kind == "adddose":
                setf(nm, doses=doses + tuple(mk_dose(d) for d in op[2]))
            elif kind == "rmdose":
                setf(nm, doses=tuple(d for d in doses if d.admid != op[2]) if op[2] else ())
            elif kind == "setlag":
                setf(nm, lag=op[2])
            elif kind == "setbio":
                setf(nm, bio=op[2])
            elif kind == "setinput":
                setf(nm, input=op[2])
            elif kind == "movedose":
                dn = op[2]
                if dn in ec:
                    ddoses = view_doses(ec[dn][2])
                    if op[3]:
                        keep = tuple(d for d in doses if d.admid != op[3])
                        moved = tuple(d for d in doses if d.admid == op[3])
                    else:
                        keep, moved = (), doses
                    if dn == nm:
                        setf(nm, doses=ddoses + moved)
                    else:
                        setf(nm, doses=keep)
                        setf(dn, doses=ddoses + moved)
    if stale:
        tags.append("stale-reference")
    if ec != ac or ef != af:
        diff = []
        for nm in sorted(set(ec) | set(ac)):
            if ec.get(nm) != ac.get(nm):
                diff.append(f"compartment {nm}: expected {ec.get(nm)}, got {ac.get(nm)}")
        for e in sorted(set(ef) | set(af)):
            if ef.get(e) != af.get(e):
                diff.append(f"flow {e}: expected {ef.get(e)}, got {af.get(e)}")
        mon.append({"cls": "builder-frame", "what": f"step {step}: {op} changed more or less than the named compartment/flow/field: "
                    + "; ".join(diff[:4])})
