"""C16 — file-system fault injector (no pharmpy source change).

`Injector(root)` patches the mutating entry points of `os`, `builtins.open`
and `io.open` while active.  Every *successful* mutating operation on a path
under `root` is logged in canonical form

    ["mkdir", rel] ["create", rel] ["write", rel, text] ["append", rel, text]
    ["unlink", rel] ["symlink", rel, target] ["rename", rel, rel2]

(`rel` = path relative to root, posix).  `open(p, 'w')` is logged as `create`
(the truncation) at open time and as `write` (the whole content) lazily, at
the next intercepted operation or at `flush()`: pharmpy closes every file
before it issues the next file-system call, so the order is the order of the
system calls.  `crash_at=k` makes the process "die" when the k-th operation
(0-based) is about to be logged: a `write`/`append` is then torn to the first
`torn` characters of what was written (torn=None: the operation does not
happen at all), and `Crash` (a BaseException) is raised; every later mutating
call raises `Crash` again without touching the disk, so unwinding code cannot
repair anything — that is what process death means.

`mode="exc"` is the second fault mode: operation k raises an ordinary
`OSError(ENOSPC)` instead (a content write raises from `fh.write()` after the
first `torn` characters reached the file), the exception propagates through
pharmpy's own `finally` / `__exit__` blocks, and the injector stays alive: the
file-system operations of that cleanup code DO happen and are logged after the
fault.
"""
from __future__ import annotations

import builtins
import errno
import io
import os


class Crash(BaseException):
    pass


_WRITE_FLAGS = os.O_WRONLY | os.O_RDWR


class FaultyText(io.TextIOWrapper):
    """A text file whose write() fails with ENOSPC once `limit` characters have been written."""

    def __init__(self, path, append, limit, inj, encoding=None, errors=None, newline=None):
        raw = io.FileIO(path, "a" if append else "w")
        super().__init__(io.BufferedWriter(raw), encoding=encoding or "utf-8", errors=errors, newline=newline)
        self._limit, self._n, self._inj = limit, 0, inj

    def write(self, s):
        room = self._limit - self._n
        if len(s) <= room:
            self._n += len(s)
            return super().write(s)
        if room > 0:
            super().write(s[:room])
            self._n += room
        self.flush()
        self._inj.delivered = True
        raise OSError(errno.ENOSPC, "No space left on device (injected)")

    def writelines(self, lines):
        for ln in lines:
            self.write(ln)


def _open_sig(file, mode="r", buffering=-1, encoding=None, errors=None, newline=None, closefd=True, opener=None):
    return dict(encoding=encoding, errors=errors, newline=newline)


class Injector:
    def __init__(self, root, crash_at=None, torn=None, mode="crash"):
        self.root = os.path.realpath(str(root))
        self.crash_at = crash_at
        self.torn = torn
        self.mode = mode
        self.delivered = False
        self.fault_index = crash_at
        self.log = []
        self.crashed = False
        self.pending = []  # [(abs path, mode 'w'|'a', size before)]
        self._orig = {}
        self.outside = []

    # ------------------------------------------------------------ helpers
    def rel(self, p):
        p = os.fspath(p)
        if isinstance(p, bytes):
            p = p.decode()
        a = os.path.normpath(os.path.join(os.getcwd(), p))
        # resolve the directory part only (a symlink itself is the object of symlink/unlink)
        d, b = os.path.split(a)
        a = os.path.join(os.path.realpath(d), b)
        if a == self.root or a.startswith(self.root + os.sep):
            return os.path.relpath(a, self.root).replace(os.sep, "/"), a
        return None, a

    def _dead(self):
        if self.crashed:
            raise Crash()

    def _emit(self, entry, undo=None, tear=None):
        """Log one completed operation; die instead if it is the crash point."""
        if self.mode == "exc" and self.crash_at is not None and len(self.log) == self.crash_at:
            self.crash_at = None
            if tear is not None:
                # a content write whose fault was delivered by FaultyText.write (or could not be: binary file)
                self.log.append(entry + ["torn"])
                if self.delivered:
                    return
                self.delivered = True
                raise OSError(errno.ENOSPC, "No space left on device (injected)")
            self.delivered = True
            if undo is not None:
                undo()
            raise OSError(errno.ENOSPC, "No space left on device (injected)")
        if self.crash_at is not None and len(self.log) == self.crash_at:
            self.crashed = True
            if tear is not None and self.torn is not None:
                entry = tear(self.torn)
                self.log.append(entry + ["torn"])
            elif undo is not None:
                undo()
            raise Crash()
        self.log.append(entry)

    def _fault_now(self):
        """The operation about to be executed is the fault point: it does not happen."""
        if self.mode == "exc":
            self.crash_at = None
            self.delivered = True
            raise OSError(errno.ENOSPC, "No space left on device (injected)")
        self.crashed = True
        raise Crash()

    def flush(self):
        """Turn finished open-for-write files into write/append operations."""
        if self.crashed:
            return
        pend, self.pending = self.pending, []
        for i, (a, r, mode, before) in enumerate(pend):
            try:
                with self._orig["io.open"](a, "r", newline="") as fh:
                    data = fh.read()
            except FileNotFoundError:
                continue
            new = data[len(before):] if mode == "a" else data

            def tear(n, a=a, before=before, new=new, mode=mode, r=r):
                with self._orig["io.open"](a, "w", newline="") as fh:
                    fh.write((before if mode == "a" else "") + new[:n])
                return ["append" if mode == "a" else "write", r, new[:n]]

            def undo(a=a, before=before, mode=mode):
                with self._orig["io.open"](a, "w", newline="") as fh:
                    fh.write(before if mode == "a" else "")

            try:
                self._emit(["append" if mode == "a" else "write", r, new], undo=undo, tear=tear)
            except Crash:
                # later pending files were never written in the crashed world
                for a2, r2, mode2, before2 in pend[i + 1:]:
                    with self._orig["io.open"](a2, "w", newline="") as fh:
                        fh.write(before2 if mode2 == "a" else "")
                raise

    # ------------------------------------------------------------ wrappers
    def _w_mkdir(self, path, mode=0o777, *, dir_fd=None):
        self._dead()
        self.flush()
        r, a = self.rel(path)
        self._orig["os.mkdir"](path, mode)
        if r is not None:
            self._emit(["mkdir", r], undo=lambda: self._orig["os.rmdir"](a))

    def _w_unlink(self, path, *, dir_fd=None):
        self._dead()
        self.flush()
        r, a = self.rel(path)
        if r is None:
            return self._orig["os.unlink"](path)
        if not os.path.lexists(a):
            return self._orig["os.unlink"](path)  # raises
        # crash *before* the unlink == the operation does not happen
        if self.crash_at is not None and len(self.log) == self.crash_at:
            self._fault_now()
        self._orig["os.unlink"](path)
        self.log.append(["unlink", r])

    def _w_rmdir(self, path, *, dir_fd=None):
        self._dead()
        self.flush()
        r, a = self.rel(path)
        if r is not None and self.crash_at is not None and len(self.log) == self.crash_at:
            self._fault_now()
        self._orig["os.rmdir"](path)
        if r is not None:
            self.log.append(["rmdir", r])

    def _w_symlink(self, src, dst, target_is_directory=False, *, dir_fd=None):
        self._dead()
        self.flush()
        r, a = self.rel(dst)
        self._orig["os.symlink"](src, dst, target_is_directory)
        if r is not None:
            self._emit(["symlink", r, os.fspath(src).replace(os.sep, "/")], undo=lambda: self._orig["os.unlink"](a))

    def _w_rename(self, name):
        def f(src, dst, *, src_dir_fd=None, dst_dir_fd=None):
            self._dead()
            self.flush()
            r1, a1 = self.rel(src)
            r2, a2 = self.rel(dst)
            if (r1 is not None or r2 is not None) and self.crash_at is not None and len(self.log) == self.crash_at:
                self._fault_now()
            self._orig[name](src, dst)
            if r1 is not None or r2 is not None:
                self.log.append(["rename", r1 or a1, r2 or a2])
        return f

    def _w_os_open(self, path, flags, mode=0o777, *, dir_fd=None):
        r, a = self.rel(path)
        creating = bool(flags & os.O_CREAT) or bool(flags & os.O_TRUNC)
        if r is None or not creating:
            return self._orig["os.open"](path, flags, mode)
        self._dead()
        self.flush()
        existed = os.path.lexists(a)
        fd = self._orig["os.open"](path, flags, mode)  # may raise FileExistsError (O_EXCL)
        if not existed or (flags & os.O_TRUNC):
            try:
                self._emit(["create", r], undo=(lambda: self._orig["os.unlink"](a)) if not existed else None)
            except BaseException:
                os.close(fd)
                raise
        return fd

    def _w_open(self, name):
        orig = self._orig[name]

        def f(file, mode="r", *args, **kwargs):
            if isinstance(file, int) or not any(c in mode for c in "wax+"):
                return orig(file, mode, *args, **kwargs)
            r, a = self.rel(file)
            if r is None:
                self.outside.append(a)
                return orig(file, mode, *args, **kwargs)
            self._dead()
            self.flush()
            existed = os.path.lexists(a)
            before = ""
            if existed:
                with orig(a, "r", newline="") as fh:
                    before = fh.read()
            fh = orig(file, mode, *args, **kwargs)
            if "w" in mode or "x" in mode or not existed:
                def restore(a=a, before=before):
                    with orig(a, "w", newline="") as f2:
                        f2.write(before)
                try:
                    self._emit(["create", r], undo=(lambda: self._orig["os.unlink"](a)) if not existed else restore)
                except BaseException:
                    fh.close()
                    raise
            self.pending.append((a, r, "a" if "a" in mode else "w", before if "a" in mode else ""))
            if self.mode == "exc" and self.crash_at is not None and len(self.log) == self.crash_at and "b" not in mode:
                # the content write of this file is the fault point: it fails after `torn` characters
                fh.close()
                kw = _open_sig(file, mode, *args, **kwargs)
                return FaultyText(a, "a" in mode, self.torn or 0, self, **kw)
            return fh
        return f

    # ------------------------------------------------------------ context
    def __enter__(self):
        o = self._orig
        o["os.mkdir"], o["os.unlink"], o["os.remove"], o["os.rmdir"] = os.mkdir, os.unlink, os.remove, os.rmdir
        o["os.symlink"], o["os.rename"], o["os.replace"], o["os.open"] = os.symlink, os.rename, os.replace, os.open
        o["builtins.open"], o["io.open"] = builtins.open, io.open
        os.mkdir, os.unlink, os.remove, os.rmdir = self._w_mkdir, self._w_unlink, self._w_unlink, self._w_rmdir
        os.symlink, os.open = self._w_symlink, self._w_os_open
        os.rename, os.replace = self._w_rename("os.rename"), self._w_rename("os.replace")
        builtins.open = self._w_open("builtins.open")
        io.open = self._w_open("io.open")
        return self

    def __exit__(self, et, ev, tb):
        o = self._orig
        os.mkdir, os.unlink, os.remove, os.rmdir = o["os.mkdir"], o["os.unlink"], o["os.remove"], o["os.rmdir"]
        os.symlink, os.rename, os.replace, os.open = o["os.symlink"], o["os.rename"], o["os.replace"], o["os.open"]
        builtins.open, io.open = o["builtins.open"], o["io.open"]
        return False


def tree(root) -> dict:
    """Canonical listing of a directory tree: rel path -> 'dir' | ['file', text] | ['link', target]."""
    out = {}
    root = str(root)
    for d, dirs, files in os.walk(root):
        for n in list(dirs) + files:
            a = os.path.join(d, n)
            r = os.path.relpath(a, root).replace(os.sep, "/")
            if os.path.islink(a):
                out[r] = ["link", os.readlink(a)]
            elif os.path.isdir(a):
                out[r] = "dir"
            else:
                with open(a, "r", newline="", errors="replace") as fh:
                    out[r] = ["file", fh.read()]
    return out
