"""C10, clause "the reported dependencies of a symbol always include every parameter, random variable and data
column its value can depend on, and are exactly those when no symbol is assigned twice" -- for the MODEL-level
dependency queries of pharmpy.modeling.expressions (depends_on, has_random_effect), which do not go through
Statements.dependencies but through their own symbol graph `_dependency_graph` (redefinitions are handled by
inlining the previous definition into every definition that mentions the symbol) and `reachable_from`.
Case kind `mdeps` of harness/corr/c10.py.

K   : `_dependency_graph(before_odes)` against `depGraph` of lean/PharmpyModel/C10/DepGraph.lean (driver op
      `mgraph`); `reachable_from` on that graph against `reachFrom` (driver op `mreach`), whose answer is
      additionally certified by the decidable `closedUnder` the theorems are stated for; depends_on answers
      against membership in the model's reachable set.
Mon : on the real model only: exact-rational execution of the statements under a perturbation of ONE
      never-assigned input (parameter / eta / data column); a changed final value of s with
      depends_on(model, s, input) == False (or has_random_effect False for an eta of the level) is unsound.
      For programs without reassignment and without read-before-definition the answer must equal the syntactic
      backward-liveness set.
"""
import random

TARGETS = ["A", "B", "C", "D", "X", "Y"]
THETAS = ["TH1", "TH2"]
ETAS = ["ETA1", "ETA2"]          # ETA1: iiv, ETA2: iov
COLS = ["WGT", "AGE"]
INPUTS = THETAS + ETAS + COLS


def _expr(rng, must, others):
    """an expression that reads every symbol of `must` (so the intended chain really exists) and possibly others"""
    from harness.corr.c10 import gen_expr
    parts = list(must)
    if not parts or rng.random() < 0.7:
        parts.append(gen_expr(rng, others, 1))
    rng.shuffle(parts)
    e = parts[0]
    for p in parts[1:]:
        e = f"({e} {rng.choice(['+', '*'])} {p})"
    if rng.random() < 0.15:
        e = f"exp(-({e})**2)"
    return e


def gen_chain(rng: random.Random):
    """chained redefinitions BY CONSTRUCTION: s0 = f(inputs); s1 = f(s0); ...; sk = f(s(k-1)); then the links
    s(k-1), ..., s0 are reassigned (scratch-variable reuse) in a seeded order, with filler statements in between.
    The default order -- nearest link first -- makes the old definition of each link reach sk only through an
    inlined definition."""
    k = rng.randint(2, 4)
    chain = rng.sample(TARGETS, k + 1)
    rest = [t for t in TARGETS if t not in chain]
    stmts = []

    def defined():
        return list(dict.fromkeys(s[1] for s in stmts))

    def filler():
        if rest and rng.random() < 0.35:
            x = rng.choice(rest)
            stmts.append(["=", x, _expr(rng, [], INPUTS + defined())])

    stmts.append(["=", chain[0], _expr(rng, [rng.choice(INPUTS)], INPUTS)])
    for j in range(1, k + 1):
        filler()
        stmts.append(["=", chain[j], _expr(rng, [chain[j - 1]], INPUTS)])
    order = list(range(k - 1, -1, -1))
    r = rng.random()
    if r < 0.2:
        rng.shuffle(order)
    elif r < 0.3:
        order = order[::-1]
    order = order[: rng.randint(2, len(order))] if len(order) > 2 else order
    for j in order:
        filler()
        u = rng.random()
        if u < 0.2:
            must = [chain[j]]                      # self-referencing redefinition (X = X*WGT)
        elif u < 0.35 and [d for d in defined() if d in rest]:
            must = [rng.choice([d for d in defined() if d in rest])]
        else:
            must = []
        stmts.append(["=", chain[j], _expr(rng, must, INPUTS) if (must or rng.random() < 0.7) else str(rng.randint(0, 9))])
    if rng.random() < 0.3:
        filler()
        stmts.append(["=", rng.choice(TARGETS), _expr(rng, [rng.choice(chain)], INPUTS)])
    return stmts


def gen_mdeps(rng: random.Random):
    from harness.corr.c10 import gen_expr
    r = rng.random()
    if r < 0.55:
        shape = "chain"
        stmts = gen_chain(rng)
    else:
        shape = "ssa" if r < 0.75 else "random"
        n = rng.randint(2, 12)
        stmts, defined = [], []
        targets = TARGETS[:]
        rng.shuffle(targets)
        for _ in range(n):
            if shape == "ssa":
                if not targets:
                    break
                x = targets.pop()
                avail = defined + INPUTS
            else:
                x = rng.choice(TARGETS)
                avail = defined + INPUTS   # Model.create refuses a symbol read before its definition
            stmts.append(["=", x, gen_expr(rng, avail)])
            if x not in defined:
                defined.append(x)
    return {"kind": "mdeps", "shape": shape, "stmts": stmts, "seed": rng.randrange(1 << 30)}


def corpus_mdeps():
    A = lambda x, e: ["=", x, e]
    return [
        # two chained redefinitions: Y reads the old X, the old X reads the old A, then X and A are reused
        {"kind": "mdeps", "shape": "chain", "seed": 11,
         "stmts": [A("A", "TH1*exp(ETA1)"), A("X", "A*WGT"), A("Y", "X + TH2"), A("X", "TH2"), A("A", "0")]},
        # three links
        {"kind": "mdeps", "shape": "chain", "seed": 12,
         "stmts": [A("A", "TH1 + ETA2"), A("B", "A*AGE"), A("X", "B + 1"), A("Y", "X*TH2"),
                   A("X", "WGT"), A("B", "2"), A("A", "TH2")]},
        # self-referencing redefinition (pheno's TVV pattern) and a plain single-assignment program
        {"kind": "mdeps", "shape": "random", "seed": 13,
         "stmts": [A("A", "TH1*exp(ETA1)"), A("X", "A"), A("X", "X*WGT"), A("Y", "X + TH2")]},
        {"kind": "mdeps", "shape": "ssa", "seed": 14,
         "stmts": [A("A", "TH1*exp(ETA1)"), A("X", "A*WGT"), A("Y", "X + TH2")]},
    ]


def shrink_mdeps(case):
    st = case["stmts"]
    for i in range(len(st)):
        if len(st) <= 1:
            break
        c = dict(case)
        c["stmts"] = st[:i] + st[i + 1:]
        yield c


def _model(case):
    from pharmpy.model import (Assignment, DataInfo, Model, NormalDistribution, Parameter, Parameters,
                               RandomVariables, Statements)
    sset = Statements([Assignment.create(s[1], s[2]) for s in case["stmts"]])
    params = Parameters.create([Parameter.create("TH1", 1.0), Parameter.create("TH2", 1.0),
                                Parameter.create("OM1", 0.1), Parameter.create("OM2", 0.1)])
    rvs = RandomVariables.create([NormalDistribution.create("ETA1", "iiv", 0, "OM1"),
                                  NormalDistribution.create("ETA2", "iov", 0, "OM2")])
    di = DataInfo.create(COLS)
    return Model.create(name="mdeps", parameters=params, random_variables=rvs, statements=sset, datainfo=di)


def _differs(a, b):
    """True only when the two exact values are numerically different for certain (no symbolic simplification:
    towers of exp make sympy.simplify take minutes).  Anything undecided counts as 'no difference seen', so the
    monitor never claims a dependence it has not observed."""
    import sympy
    if a == b:
        return False
    try:
        d = complex(sympy.N(a - b, 40))
        return abs(d) > 1e-25
    except Exception:
        return False


def run_mdeps(case, drv):
    import sympy
    from pharmpy.internals.graph.directed.reachability import reachable_from
    from pharmpy.modeling import has_random_effect
    from pharmpy.modeling.expressions import _dependency_graph, depends_on

    from harness.common import exprconv
    from harness.corr import c10 as base

    rng = random.Random(case["seed"])
    k, mon, tags = [], [], ["mdeps", f"mdeps-shape={case.get('shape')}"]
    try:
        model = _model(case)
    except ValueError as e:  # documented refusal of Model.create (symbol defined after being used): not a case
        return {"k": [], "mon": [], "tags": ["mdeps-not-constructible:" + str(e)[:40]], "nontrivial": False}
    ss = model.statements.before_odes
    w = base.wire(ss)
    lhs = [str(s.symbol) for s in ss]
    defined = list(dict.fromkeys(lhs))
    assigned_twice = len(lhs) != len(defined)
    seen, read_before_def = set(), False
    for s in ss:
        if base.stmt_rhs_names(s) & (set(defined) - seen):
            read_before_def = True
        seen.add(str(s.symbol))
    nredef = len(lhs) - len(defined)
    tags.append(f"mdeps-redefinitions={min(nredef, 4)}")
    tags.append(f"mdeps-len={len(ss)}")
    nontrivial = len(ss) >= 2 and any(base.stmt_rhs_names(s) & set(defined) for s in ss)

    sym_objs = set()
    for s in ss:
        sym_objs |= exprconv.to_sympy(s.expression).free_symbols | {exprconv.to_sympy(s.symbol)}
    sym_objs |= {sympy.Symbol(n) for n in INPUTS}
    sym_objs = sorted(sym_objs, key=str)

    # ---- answers of the real code
    dep = {}
    for x in defined:
        for inp in INPUTS:
            try:
                dep[(x, inp)] = bool(depends_on(model, x, inp))
            except Exception as e:
                dep[(x, inp)] = None
                mon.append({"cls": "mdeps-internal-error", "what": f"depends_on(model, {x!r}, {inp!r}) raised {type(e).__name__}: {e}"})
    hre = {}
    for x in defined:
        for level in ("all", "iiv", "iov"):
            try:
                hre[(x, level)] = bool(has_random_effect(model, x, level))
            except Exception as e:
                hre[(x, level)] = None
                mon.append({"cls": "mdeps-internal-error", "what": f"has_random_effect(model, {x!r}, {level!r}) raised {type(e).__name__}: {e}"})
    tags.append("q:depends_on")

    # ---- Mon (a): soundness by perturbation of one never-assigned input
    truly = set()
    for trial in range(2):
        env = base.rand_env(rng, sym_objs)
        _, fin = base.run_py(ss, env)
        for inp in INPUTS:
            env2 = dict(env)
            isym = sympy.Symbol(inp)
            env2[isym] = env[isym] + sympy.Rational(rng.randint(1, 5), 3)
            _, fin2 = base.run_py(ss, env2)
            for x in defined:
                if (x, inp) in truly:
                    continue
                xs = sympy.Symbol(x)
                if _differs(fin[xs], fin2[xs]):
                    truly.add((x, inp))
    cls_unsound = "mdeps-unsound-redefinition" if assigned_twice else "mdeps-unsound"
    prog = "; ".join(f"{s[1]}={s[2]}" for s in case["stmts"])
    for (x, inp) in sorted(truly):
        if dep.get((x, inp)) is False:
            mon.append({"cls": cls_unsound, "what": f"[{prog}] executing the statements in order, the final value of {x} changes "
                        f"when only {inp} changes, but depends_on(model, {x!r}, {inp!r}) is False"})
        if inp in ETAS:
            for level in ("all", "iiv" if inp == "ETA1" else "iov"):
                if hre.get((x, level)) is False:
                    mon.append({"cls": cls_unsound, "what": f"[{prog}] the final value of {x} changes with {inp} but "
                                f"has_random_effect(model, {x!r}, {level!r}) is False"})

    # ---- Mon (b): exactness without reassignment (and without read-before-definition)
    if not assigned_twice and not read_before_def:
        tags.append("mdeps-exactness-checked")
        for x in defined:
            i = max(j for j, s in enumerate(ss) if str(s.symbol) == x)
            ref = base.ref_liveness(ss, i)
            for inp in INPUTS:
                got = dep.get((x, inp))
                if got is not None and got != (inp in ref):
                    cls = "mdeps-inexact-single-assignment" if got else "mdeps-unsound"
                    mon.append({"cls": cls, "what": f"[{prog}] single-assignment program: depends_on(model, {x!r}, {inp!r}) is {got}, "
                                f"the exact dependency set of {x} is {sorted(ref)}"})
            for level, es in (("all", ETAS), ("iiv", ["ETA1"]), ("iov", ["ETA2"])):
                got = hre.get((x, level))
                want = bool(set(es) & ref)
                if got is not None and got != want:
                    cls = "mdeps-inexact-single-assignment" if got else "mdeps-unsound"
                    mon.append({"cls": cls, "what": f"[{prog}] single-assignment program: has_random_effect(model, {x!r}, {level!r}) "
                                f"is {got}, the exact dependency set of {x} is {sorted(ref)}"})

    # ---- K
    if drv is not None:
        try:
            g = _dependency_graph(ss)
            code_g = {str(a): sorted(str(b) for b in v) for a, v in g.items()}
        except Exception as e:
            g, code_g = None, ["err", type(e).__name__]
        m = drv.ask(["mgraph", w])
        try:
            model_g = {str(p[0]): sorted(set(str(b) for b in p[1])) for p in m}
        except Exception:
            model_g = m
        if model_g != code_g:
            k.append(f"_dependency_graph: model {model_g} code {code_g}")
        for x in defined:
            m = drv.ask(["mreach", w, x])
            if not (isinstance(m, list) and len(m) == 2 and isinstance(m[0], list)):
                k.append(f"reachable_from({x}): model {m}")
                continue
            mreach = sorted(set(str(b) for b in m[0]))
            if m[1] != "true":
                k.append(f"reachable_from({x}): model set {mreach} fails the Lean certificate closedUnder")
            if g is not None:
                xs = [a for a in g if str(a) == x]
                creach = sorted(str(b) for b in reachable_from(set(xs), lambda y: g.get(y, []))) if xs else ["err", "KeyError"]
                if creach != mreach:
                    k.append(f"reachable_from({x}): model {mreach} code {creach}")
            for inp in INPUTS:
                if dep.get((x, inp)) is not None and dep[(x, inp)] != (inp in mreach):
                    k.append(f"depends_on({x},{inp}): model {inp in mreach} code {dep[(x, inp)]}")
        m = drv.ask(["mreach", w, "ZZ_UNDEFINED"])
        if m != ["err", "KeyError"]:
            k.append(f"depends_on of an unassigned symbol: model {m} code KeyError")
        try:
            depends_on(model, "ZZ_UNDEFINED", "TH1")
            k.append("depends_on of an unassigned symbol: code answered, model KeyError")
        except KeyError:
            pass
    return {"k": k, "mon": mon, "tags": tags, "nontrivial": nontrivial}
