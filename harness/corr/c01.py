"""C01 — Reading a NONMEM model preserves its meaning (NM-TRAN -> model IR).

T1  : harness/translate/c01_advan.py regenerates lean/PharmpyModel/Generated/Advan.lean from advan.py.
K   : (a) Lean `translate` (model of `_parse_tree`) vs the statements of the parsed code records, statement by
          statement: same symbols in the same order, right-hand sides equal at seeded exact points (including
          "undefined"), piecewise skeleton where sympy cannot have rewritten it;
      (b) Lean `unsafeFrom` vs the harness's own classification of the program;
      (c) Lean `nmRun`/`run∘translate` over exact rationals vs the harness's NM-TRAN interpreter / pharmpy's IR
          (function-free programs);
      (d) generated ADVAN/TRANS table (`codeFlows`) vs the flows of the model object read from a control stream.
Mon : pharmpy's `model.statements` executed in order vs an NM-TRAN reference interpreter on the same program
      (exact arithmetic; the first top-level statement after which the two environments differ decides the class);
      ADVAN/TRANS flows of the model object vs the PREDPP table (`specFlows`) and closedness over the basic
      parameters; documented `$THETA` forms parse to the documented values.
"""
from __future__ import annotations

import os
import random

ID = "C01"
DRIVER = "drv_c01"
LEAN_TARGETS = ["PharmpyProofs.C01.Properties", "PharmpyProofs.C01.PropertiesAdvan", "PharmpyProofs.C01.PropertiesOmega", "PharmpyProofs.C01.PropertiesDes", "PharmpyProofs.C01.PropertiesRates", "PharmpyProofs.C01.PropertiesTheta", "drv_c01"]
PROPERTIES = ["PharmpyProofs/C01/Properties.lean", "PharmpyProofs/C01/PropertiesAdvan.lean", "PharmpyProofs/C01/PropertiesOmega.lean", "PharmpyProofs/C01/PropertiesDes.lean", "PharmpyProofs/C01/PropertiesRates.lean", "PharmpyProofs/C01/PropertiesTheta.lean"]
LEAN_SOURCES = ["PharmpyModel/C01/*.lean", "PharmpyModel/Generated/Advan.lean", "PharmpyProofs/C01/*.lean", "Drivers/C01.lean"]
TIME_LIMIT = {"quick": 900, "thorough": 3000}
CASE_CPU_LIMIT = 60
RULE = ("grammar-directed abbreviated-code programs (3-10 top-level statements over targets AA,BB,CC,DD,GG, data items X,W, "
        "THETA/ETA/EPS, numbers incl. Fortran D exponents; assignment, logical IF, block IF with ELSEIF/ELSE, several "
        "assignments per branch, nested logical/block IFs; half of them generated inside the Safe fragment) rendered "
        "with random operator spellings (.GT./>), keyword case, redundant parentheses and comments, in $PRED or split "
        "over $PK/$ERROR (ADVAN1 TRANS2), read with read_model_from_string; every (ADVAN,TRANS) entry of the PREDPP table; "
        "$THETA forms init / (low,init) / (low,init,up) / (..)xn over 1-4 records, with 0-3 trailing comments per item (named, numeric, empty; NM-TRAN ignores them, pharmpy names parameters from them) and a comment before the first item. non-trivial = program with at least one IF, or an "
        "ADVAN/TRANS entry, or a $THETA record with a repeat; distinct = distinct case JSON")
TRUSTED = [
    "Lean 4.33 kernel; axioms propext, Quot.sound, Classical.choice only (audited per theorem each run)",
    "hand-written model PharmpyModel/C01/Model.lean (translate) tied to code_record.py by the correspondence run of this invocation",
    "translator harness/translate/c01_advan.py (closed list of AST shapes, refuses otherwise); its output is compared with the "
    "flows of model objects read from control streams on every run",
    "PREDPP table PharmpyModel/C01/Advan.lean written from the NONMEM definitions (its TRANS5/TRANS6 entries are proved to "
    "satisfy the Vieta relations of the parametrisations)",
    "lark LALR parsing of the record grammars and sympy/symengine canonicalisation preserve values (exercised by the monitors)",
    "harness/corr/c01.py: generator, renderer, exact evaluator, NM-TRAN reference interpreter (itself compared with Lean's nmRun)",
]
ASSUMPTIONS = [
    "NM-TRAN semantics of a block IF: conditions evaluated top-down once, first true branch executed sequentially; a variable "
    "keeps its value when not assigned; values of variables never assigned are not compared (pharmpy reports them undefined)",
    "expressions are compared by exact evaluation at seeded rational points; decimal literals are dyadic so that float "
    "literals are exact",
    "'same amounts' is decided as same compartmental flows (rate expressions over the basic PK parameters); no ODE solving",
]

TARGETS = ["AA", "BB", "CC", "DD", "GG"]
DATA = ["X", "W"]
RELS = {"gt": (".GT.", ">"), "ge": (".GE.", ">="), "lt": (".LT.", "<"), "le": (".LE.", "<="), "eq": (".EQ.", "=="), "ne": (".NE.", "/=")}
FUNCS = ["EXP", "LOG", "SQRT", "ABS"]


def budget(tier):
    return int(os.environ.get("VERIF_BUDGET", 0)) or {"quick": 360, "thorough": 5000}[tier]


def translators():
    from harness.translate import c01_advan
    return [("T1-advan-tables", c01_advan.regenerate)]


# ================================================================ generation (pure python, rng only)

NUMS = [("0", "0"), ("1", "1"), ("2", "2"), ("3", "3"), ("5", "5"), ("1/2", "0.5"), ("3/2", "1.5"), ("9/4", "2.25"),
        ("1/4", "2.5D-1"), ("2", "2.0"), ("1", "1D0"), ("3", "3.E0"), ("1/2", ".5"), ("20", "2.0E1")]


def g_num(rng):
    v, s = rng.choice(NUMS)
    return ["num", v, s]


def g_leaf(rng, avail):
    r = rng.random()
    if r < 0.40 and avail:
        return ["sym", rng.choice(avail)]
    if r < 0.60:
        return ["sym", rng.choice(DATA)]
    if r < 0.72:
        return ["par", "THETA", rng.randint(1, 3)]
    if r < 0.80:
        return ["par", "ETA", rng.randint(1, 2)]
    return g_num(rng)


def g_expr(rng, avail, depth=0):
    r = rng.random()
    if depth >= 3 or r < 0.30 + 0.15 * depth:
        return g_leaf(rng, avail)
    if r < 0.55:
        return [rng.choice(["add", "sub"]), g_expr(rng, avail, depth + 1), g_expr(rng, avail, depth + 1)]
    if r < 0.72:
        return ["mul", g_expr(rng, avail, depth + 1), g_expr(rng, avail, depth + 1)]
    if r < 0.80:
        return ["div", g_expr(rng, avail, depth + 1), ["add", ["pow", g_leaf(rng, avail), ["num", "2", "2"]], ["num", *rng.choice(NUMS[1:])]]]
    if r < 0.87:
        e = g_expr(rng, avail, depth + 2)
        if rng.random() < 0.3:
            return ["pow", g_leaf(rng, avail), ["pow", ["num", "2", "2"], ["num", "2", "2"]]] if rng.random() < 0.3 else ["pow", e, ["num", "2", "2"]]
        return ["pow", e, ["num", rng.choice(["2", "3"]), None]]
    if r < 0.93:
        return ["neg", g_expr(rng, avail, depth + 1)]
    if r < 0.945:
        return ["fmod", g_leaf(rng, avail), ["num", *rng.choice([("2", "2"), ("3", "3")])]]
    f = rng.choice(FUNCS)
    a = g_leaf(rng, avail)
    if f in ("LOG", "SQRT"):
        a = ["add", ["pow", a, ["num", "2", "2"]], ["num", "1", "1"]]
    elif f == "EXP":
        a = ["neg", ["pow", a, ["num", "2", "2"]]]
    return ["fn", f, a]


def g_rel(rng, avail, exact=True):
    lhs = ["sym", rng.choice(DATA + avail[:2])] if rng.random() < 0.8 else g_expr(rng, avail, 2)
    rhs = ["num", *rng.choice([("0", "0"), ("1", "1"), ("2", "2"), ("1/2", "0.5"), ("1", "1.0")])]
    r = [rng.choice(list(RELS)), lhs, rhs]
    return ["not", r] if rng.random() < 0.12 else r


def g_cond(rng, avail, depth=0):
    """OR of ANDs of (negated) relations: the only shapes that need no parentheses (pharmpy's grammar has none
    for logical sub-expressions)."""
    def conj():
        c = g_rel(rng, avail)
        while rng.random() < 0.15:
            c = ["and", c, g_rel(rng, avail)]
        return c
    c = conj()
    while rng.random() < 0.12:
        c = ["or", c, conj()]
    return c


def g_block(rng, defined, safe, depth=0):
    nbr = rng.choice([1, 1, 2, 2, 3])
    has_else = rng.random() < 0.5
    if safe:
        # symbols assigned by the block are read nowhere in it; assigned sets form a prefix chain
        syms = rng.sample(TARGETS, rng.randint(1, 3))
        readable = [s for s in defined if s not in syms]
        branches = []
        cur = list(syms)
        for b in range(nbr + (1 if has_else else 0)):
            is_else = has_else and b == nbr
            if b > 0 and not is_else and rng.random() < 0.4 and len(cur) > 1:
                cur = cur[:rng.randint(1, len(cur))]
            body_syms = list(cur)
            if is_else:
                # everything not previously defined must be assigned in ELSE too
                body_syms = [s for s in syms if (s in cur) or (s not in defined)]
                if any(s not in cur for s in body_syms):
                    body_syms = list(cur)
            rng.shuffle(body_syms)
            body = [["=", s, g_expr(rng, readable)] for s in body_syms]
            branches.append((None if is_else else g_cond(rng, readable), body))
        # a symbol not assigned by ELSE must have been defined before the block
        last_syms = [st[1] for st in branches[-1][1]] if has_else else []
        if any((s not in defined) and (s not in last_syms) for s in syms) or (not branches[0][1]):
            return g_block(rng, defined, False, depth)
        brs = [[c, b] for c, b in branches if c is not None]
        els = branches[-1][1] if has_else else None
        return ["block", brs, els]
    brs = []
    for _ in range(nbr):
        brs.append([g_cond(rng, defined), g_body(rng, defined, depth)])
    els = g_body(rng, defined, depth) if has_else else None
    if els is not None and nbr == 1 and rng.random() < 0.15:
        brs[0][1] = []           # the "empty IF … ELSE" shape
    return ["block", brs, els]


def g_body(rng, defined, depth):
    body = []
    local = list(defined)
    for _ in range(rng.randint(1, 3)):
        r = rng.random()
        x = rng.choice(TARGETS)
        if r < 0.94 or depth >= 1:
            if r < 0.88 or depth >= 1:
                body.append(["=", x, g_expr(rng, local)])
            else:
                body.append(["if", g_cond(rng, local), x, g_expr(rng, local)])
        else:
            body.append(g_block(rng, local, False, depth + 1))
        if x not in local:
            local.append(x)
    return body


def assigned_of(st):
    if st[0] in ("=",):
        return [st[1]]
    if st[0] == "if":
        return [st[2]]
    out = []
    for c, b in st[1]:
        for s in b:
            out += assigned_of(s)
    for s in (st[2] or []):
        out += assigned_of(s)
    return out


def g_prog(rng, safe, n, defined0=()):
    defined = list(defined0)
    out = []
    for _ in range(n):
        r = rng.random()
        if r < 0.45 or not defined:
            x = rng.choice(TARGETS)
            st = ["=", x, g_expr(rng, defined)]
        elif r < 0.65:
            x = rng.choice(defined) if (safe or rng.random() < 0.8) else rng.choice(TARGETS)
            st = ["if", g_cond(rng, defined), x, g_expr(rng, defined)]
        else:
            st = g_block(rng, defined, safe)
        out.append(st)
        for x in assigned_of(st):
            if x not in defined:
                defined.append(x)
    return out, defined


def gen_cases(rng: random.Random, n: int, tier: str):
    out = []
    for i in range(n):
        r = rng.random()
        seed = rng.randrange(1 << 30)
        if r < 0.04:
            form = rng.choice(["init", "low-init", "low-init-up", "init-xn", "low-init-xn", "low-init-up-xn"])
            out.append({"kind": "theta", "form": form, "low": rng.randint(-3, 0), "init": rng.randint(1, 4),
                        "up": rng.randint(5, 9), "n": rng.randint(2, 4), "fix": form in ("init", "init-xn") and rng.random() < 0.4, "seed": seed})
            continue
        if r < 0.09:
            out.append(g_thetas_case(rng, seed))
            continue
        if r < 0.30:
            out.append(g_omega_case(rng, seed))
            continue
        if r < 0.46:
            out.append(g_des_case(rng, seed))
            continue
        if r < 0.52:
            out.append(g_linear_case(rng, seed))
            continue
        safe = rng.random() < 0.5
        if r < 0.60:
            pk, d = g_prog(rng, safe, rng.randint(2, 5))
            err, _ = g_prog(rng, safe, rng.randint(2, 5), () if rng.random() < 0.5 else d)
            # statements of $ERROR may read what $PK defined
            out.append({"kind": "prog", "layout": "pkerr", "stmts": pk, "stmts2": err, "seed": seed})
        else:
            st, _ = g_prog(rng, safe, rng.randint(3, 10))
            out.append({"kind": "prog", "layout": "pred", "stmts": st, "stmts2": [], "seed": seed})
    return out


def _n(v):
    return ["num", str(v), str(v)]


def corpus_cases():
    X0 = ["gt", ["sym", "X"], _n(0)]
    W0 = ["gt", ["sym", "W"], _n(0)]
    A0 = ["gt", ["sym", "AA"], _n(0)]
    cs = [
        # F6: the block reads a symbol it assigns
        {"kind": "prog", "layout": "pred", "stmts": [["=", "AA", ["sym", "X"]], ["=", "BB", _n(0)],
                                                      ["block", [[A0, [["=", "AA", ["neg", _n(1)]], ["=", "BB", _n(2)]]]], None]], "stmts2": [], "seed": 11},
        # branch gap: BB assigned only in ELSE
        {"kind": "prog", "layout": "pred", "stmts": [["=", "AA", _n(0)], ["=", "BB", _n(0)],
                                                      ["block", [[X0, [["=", "AA", _n(1)]]]], [["=", "BB", _n(2)]]]], "stmts2": [], "seed": 12},
        # branch gap with ELSEIF
        {"kind": "prog", "layout": "pred", "stmts": [["=", "AA", _n(0)], ["=", "BB", _n(0)],
                                                      ["block", [[X0, [["=", "AA", _n(1)]]], [W0, [["=", "BB", _n(2)]]]], None]], "stmts2": [], "seed": 13},
        # assigned twice in one branch
        {"kind": "prog", "layout": "pred", "stmts": [["=", "CC", _n(0)],
                                                      ["block", [[X0, [["=", "CC", _n(1)], ["=", "CC", ["add", ["sym", "CC"], _n(1)]]]]], None]], "stmts2": [], "seed": 14},
        # nested logical IF dropped
        {"kind": "prog", "layout": "pred", "stmts": [["=", "CC", _n(0)],
                                                      ["block", [[X0, [["if", W0, "CC", _n(1)]]]], None]], "stmts2": [], "seed": 15},
        # nested block IF dropped
        {"kind": "prog", "layout": "pred", "stmts": [["=", "CC", _n(0)],
                                                      ["block", [[X0, [["block", [[W0, [["=", "CC", _n(1)]]]], [["=", "CC", _n(2)]]]]]], None]], "stmts2": [], "seed": 16},
        # conditional assignment in $ERROR of a variable defined in $PK
        {"kind": "prog", "layout": "pkerr", "stmts": [["=", "GG", _n(0)]], "stmts2": [["if", X0, "GG", _n(1)]], "seed": 17},
        # safe idioms: full IF/ELSE defining a new variable; empty IF … ELSE; logical IF keeping the previous value
        {"kind": "prog", "layout": "pred", "stmts": [["block", [[X0, [["=", "AA", _n(1)]]]], [["=", "AA", _n(2)]]],
                                                      ["block", [[W0, []]], [["=", "AA", _n(3)]]],
                                                      ["if", X0, "AA", ["add", ["sym", "AA"], _n(1)]]], "stmts2": [], "seed": 18},
        # unary minus before literal ** (Fortran: -(2**2))
        {"kind": "prog", "layout": "pred", "stmts": [["=", "AA", ["neg", ["pow", _n(2), _n(2)]]],
                                                      ["=", "BB", ["fn", "EXP", ["neg", ["pow", _n(2), _n(2)]]]]], "stmts2": [], "seed": 22},
        # MOD of a negative dividend (Fortran: sign of the dividend)
        {"kind": "prog", "layout": "pred", "stmts": [["=", "AA", ["fmod", ["neg", _n(7)], _n(3)]], ["=", "BB", ["fmod", ["sub", ["sym", "X"], _n(9)], _n(2)]]], "stmts2": [], "seed": 24},
        # parenthesised logical sub-expression
        {"kind": "prog", "layout": "pred", "bool_parens": True,
         "stmts": [["=", "AA", _n(0)], ["if", ["not", X0], "AA", _n(1)]], "stmts2": [], "seed": 23},
        # F15
        {"kind": "theta", "form": "low-init-xn", "low": 0, "init": 1, "up": 5, "n": 2, "fix": False, "seed": 19},
        {"kind": "theta", "form": "init-xn", "low": 0, "init": 1, "up": 5, "n": 2, "fix": False, "seed": 20},
        {"kind": "theta", "form": "low-init-up-xn", "low": 0, "init": 1, "up": 2, "n": 3, "fix": False, "seed": 21},
    ]
    one = [{"t": "diag", "items": [{"v": "1", "reps": 1, "sd": False, "var": False, "fix": False, "paren": False, "optfirst": False}], "diagn": False}]

    def blk(n, vals, sd=False, corr=False, chol=False, fix=False):
        return {"t": "block", "n": n, "sd": sd, "corr": corr, "chol": chol, "fix": fix, "var": False, "cov": False,
                "vals": [[v, 1] for v in vals], "optpos": "after"}
    cs += [
        # the seeded change that was missed: CHOLESKY factor listed row by row of the lower triangle, n = 3
        {"kind": "omega", "omega": [blk(3, ["1", "2", "3", "4", "5", "6"], chol=True)], "sigma": one, "seed": 30},
        {"kind": "omega", "omega": one, "sigma": [blk(3, ["0.8", "-0.3", "0.7", "0.2", "0.1", "1.1"], chol=True)], "seed": 31},
        # nmhelp: five spellings of one matrix
        {"kind": "omega", "omega": [blk(2, ["0.64", "-0.24", "0.58"]), blk(2, ["0.8", "-0.24", "0.762"], sd=True),
                                    blk(2, ["0.8", "-0.394", "0.762"], sd=True, corr=True), blk(2, ["0.64", "-0.394", "0.58"], corr=True),
                                    blk(2, ["0.8", "-0.3", "0.7"], chol=True)], "sigma": one, "seed": 32},
        {"kind": "omega", "omega": [blk(3, ["0.3", "0.01", "0.5", "-0.02", "0.03", "0.7"]), {"t": "same", "size": True, "m": None},
                                    {"t": "same", "size": False, "m": None}], "sigma": one, "seed": 33},
        # SAME(m): m further blocks
        {"kind": "omega", "omega": [blk(2, ["0.64", "-0.24", "0.58"]), {"t": "same", "size": True, "m": 3}], "sigma": one, "seed": 34},
        # Fortran D exponent in $THETA
        {"kind": "thetas", "items": [{"form": "init", "init": ["2", "2"], "low": "0", "up": "20", "n": 2, "fixpos": "none", "fixkw": "FIX", "sep": ",", "infkw": "INF"}],
         "split": False, "dexp": True, "seed": 37},
        # repeated form `(low,init,up)xn` with a trailing comment, further commented records (seed C01f); several comments on one item
        {"kind": "thetas", "items": [
            {"form": "low-init-up-xn", "init": ["0.5", ".5"], "low": "0", "up": "1", "n": 2, "fixpos": "none", "fixkw": "FIX", "sep": ",", "infkw": "INF",
             "comments": [["name", "fractions", ""]]},
            {"form": "low-init-up", "init": ["2.5", "2.5"], "low": "-2", "up": "20", "n": 2, "fixpos": "none", "fixkw": "FIX", "sep": ",", "infkw": "INF",
             "comments": [["name", "slope", ""]]},
            {"form": "low-init", "init": ["7", "7"], "low": "0", "up": "20", "n": 2, "fixpos": "none", "fixkw": "FIX", "sep": ",", "infkw": "INF",
             "comments": [["name", "baseline", ""]]}],
         "split": False, "breaks": [1, 2], "dexp": False, "seed": 38},
        {"kind": "thetas", "items": [
            {"form": "init-xn", "init": ["1", "1"], "low": "0", "up": "20", "n": 3, "fixpos": "none", "fixkw": "FIX", "sep": ",", "infkw": "INF",
             "comments": [["name", "CL", " (L/h)"], ["name", "V", ""]]},
            {"form": "init", "init": ["2.5", "2.5"], "low": "0", "up": "20", "n": 2, "fixpos": "none", "fixkw": "FIX", "sep": ",", "infkw": "INF",
             "comments": [["num", "1st"]]},
            {"form": "init", "init": ["3", "3."], "low": "0", "up": "20", "n": 2, "fixpos": "none", "fixkw": "FIX", "sep": ",", "infkw": "INF", "comments": []},
            {"form": "init-xn", "init": ["7", "7"], "low": "0", "up": "20", "n": 2, "fixpos": "none", "fixkw": "FIX", "sep": ",", "infkw": "INF",
             "comments": [["empty"]]}],
         "split": False, "precomment": True, "dexp": False, "seed": 39},
        # commas between initial estimates
        {"kind": "omega", "comma": True, "omega": [blk(2, ["0.3", "0.01", "0.5"])], "sigma": one, "seed": 36},
        # BLOCK(n) VALUES(diag, odiag)
        {"kind": "omega", "omega": [{"t": "values", "n": 3, "d": "0.1", "o": "0.01"}], "sigma": one, "seed": 35},
    ]
    for a, t in ADVAN_ENTRIES:
        cs.append({"kind": "advan", "advan": a, "trans": t, "seed": 100 + len(cs)})
    for a in ["ADVAN1", "ADVAN2", "ADVAN3", "ADVAN4", "ADVAN10", "ADVAN11", "ADVAN12"]:
        cs.append({"kind": "advan", "advan": a, "trans": "TRANS1", "extras": "Sn", "seed": 100 + len(cs)})
        cs.append({"kind": "advan", "advan": a, "trans": "TRANS1", "extras": "SC", "seed": 100 + len(cs)})
    return cs


ADVAN_ENTRIES = [("ADVAN1", "TRANS1"), ("ADVAN1", "TRANS2"), ("ADVAN2", "TRANS1"), ("ADVAN2", "TRANS2"),
                 ("ADVAN3", "TRANS1"), ("ADVAN3", "TRANS3"), ("ADVAN3", "TRANS4"), ("ADVAN3", "TRANS5"), ("ADVAN3", "TRANS6"),
                 ("ADVAN4", "TRANS1"), ("ADVAN4", "TRANS3"), ("ADVAN4", "TRANS4"), ("ADVAN4", "TRANS5"), ("ADVAN4", "TRANS6"),
                 ("ADVAN10", "TRANS1"), ("ADVAN11", "TRANS1"), ("ADVAN11", "TRANS4"), ("ADVAN11", "TRANS6"),
                 ("ADVAN12", "TRANS1"), ("ADVAN12", "TRANS4"), ("ADVAN12", "TRANS6")]


def shrink(case):
    if case.get("kind") == "omega":
        yield from shrink_omega(case)
        return
    if case.get("kind") == "des":
        yield from shrink_des(case)
        return
    if case.get("kind") == "linear":
        for key in ("decoys", "flows", "outs"):
            for i in range(len(case.get(key, []))):
                if key != "decoys" and len(case[key]) <= 1:
                    continue
                c = dict(case)
                c[key] = case[key][:i] + case[key][i + 1:]
                yield c
        return
    if case.get("kind") == "thetas":
        items = case["items"]
        for i in range(len(items)):
            if len(items) > 1:
                c = dict(case)
                c["items"] = items[:i] + items[i + 1:]
                c.pop("breaks", None)
                yield c
        for key in ("breaks", "precomment"):
            if case.get(key):
                c = dict(case)
                c.pop(key)
                yield c
        for i, it in enumerate(items):
            for j in range(len(it.get("comments", []))):
                c = dict(case)
                c["items"] = items[:i] + [dict(it, comments=it["comments"][:j] + it["comments"][j + 1:])] + items[i + 1:]
                yield c
        return
    if case.get("kind") != "prog":
        return
    for key in ("stmts", "stmts2"):
        st = case[key]
        for i in range(len(st)):
            c = dict(case)
            c[key] = st[:i] + st[i + 1:]
            yield c
        for i, s in enumerate(st):
            if s[0] != "block":
                continue
            brs, els = s[1], s[2]
            cands = []
            if els is not None:
                cands.append(["block", brs, None])
            if len(brs) > 1:
                for j in range(len(brs)):
                    cands.append(["block", brs[:j] + brs[j + 1:], els])
            for j, (c_, b_) in enumerate(brs):
                for k in range(len(b_)):
                    cands.append(["block", brs[:j] + [[c_, b_[:k] + b_[k + 1:]]] + brs[j + 1:], els])
            for k in range(len(els or [])):
                cands.append(["block", brs, els[:k] + els[k + 1:]])
            for nb in cands:
                c = dict(case)
                c[key] = st[:i] + [nb] + st[i + 1:]
                yield c


# ================================================================ rendering to NM-TRAN text

def r_expr(e, rng, lvl=0):
    """lvl: 0 add, 1 mul, 2 sign operand / pow, 3 atom."""
    k = e[0]
    if k == "num":
        s = e[2] if e[2] is not None else e[1]
        return s
    if k == "sym":
        return e[1]
    if k == "par":
        return f"{e[1]}({e[2]})"
    if k == "fn":
        return f"{e[1]}({r_expr(e[2], rng, 0)})"
    if k == "fmod":
        return f"MOD({r_expr(e[1], rng, 0)},{r_expr(e[2], rng, 0)})"
    if k in ("add", "sub"):
        s = r_expr(e[1], rng, 0) + (" + " if k == "add" else " - ") + r_expr(e[2], rng, 1)
        my = 0
    elif k in ("mul", "div"):
        s = r_expr(e[1], rng, 1) + ("*" if k == "mul" else "/") + r_expr(e[2], rng, 2)
        my = 1
    elif k == "neg":
        s = "-" + r_expr(e[1], rng, 2)
        my = 0.5          # may stand only where an additive expression starts
    elif k == "pow":
        s = r_expr(e[1], rng, 3) + "**" + r_expr(e[2], rng, 2)
        my = 2
    else:
        raise ValueError(k)
    if my < lvl or (k == "neg" and lvl > 0) or (rng.random() < 0.08 and not (k == "pow" and e[1][0] == "num")):
        return "(" + s + ")"
    return s


def r_cond(c, rng, lvl=0, parens=False):
    k = c[0]
    if k in RELS:
        return r_expr(c[1], rng) + rng.choice(RELS[k]) + r_expr(c[2], rng)
    if k == "not":
        inner = r_cond(c[1], rng, 3, parens)
        return ".NOT." + ("(" + inner + ")" if (parens or c[1][0] not in RELS) else inner)
    if k == "and":
        s = r_cond(c[1], rng, 1, parens) + ".AND." + r_cond(c[2], rng, 2, parens)
        return "(" + s + ")" if lvl > 1 else s
    if k == "or":
        s = r_cond(c[1], rng, 0, parens) + ".OR." + r_cond(c[2], rng, 1, parens)
        return "(" + s + ")" if lvl > 0 else s
    raise ValueError(k)


def kw(rng, s):
    return s if rng.random() < 0.8 else s.lower()


def r_stmts(stmts, rng, ind=0, parens=False):
    L = []
    pad = " " * ind
    for st in stmts:
        cm = "  ; note" if rng.random() < 0.07 else ""
        if st[0] == "=":
            eq = rng.choice([" = ", "=", "= "])
            L.append(f"{pad}{st[1]}{eq}{r_expr(st[2], rng)}{cm}")
        elif st[0] == "if":
            L.append(f"{pad}{kw(rng, 'IF')} ({r_cond(st[1], rng, 0, parens)}) {st[2]} = {r_expr(st[3], rng)}{cm}")
        else:
            brs, els = st[1], st[2]
            for j, (c, b) in enumerate(brs):
                head = kw(rng, "IF") if j == 0 else kw(rng, rng.choice(["ELSE IF", "ELSEIF"]))
                L.append(f"{pad}{head} ({r_cond(c, rng, 0, parens)}) {kw(rng, 'THEN')}{cm}")
                L += r_stmts(b, rng, ind + 2, parens)
            if els is not None:
                L.append(f"{pad}{kw(rng, 'ELSE')}")
                L += r_stmts(els, rng, ind + 2, parens)
            L.append(f"{pad}{kw(rng, rng.choice(['ENDIF', 'END IF']))}")
    return L


Y_PRED = ["=", "Y", ["add", ["par", "THETA", 1], ["par", "EPS", 1]]]
Y_ERR = ["=", "Y", ["add", ["sym", "F"], ["par", "EPS", 1]]]
EXTRA_PK = [["=", "CL", ["par", "THETA", 1]], ["=", "V", ["par", "THETA", 2]]]


def control_stream(case, rng):
    pre = "$PROBLEM c01\n$INPUT ID TIME DV AMT X W\n$DATA c01.csv IGNORE=@\n"
    post = "$THETA (0,1) (0,2) 3\n$OMEGA 0.1 0.2\n$SIGMA 1\n$ESTIMATION METHOD=1 INTER\n"
    if case["layout"] == "pred":
        body = "$PRED\n" + "\n".join(r_stmts(case["stmts"] + [Y_PRED], rng, 0, bool(case.get("bool_parens")))) + "\n"
    else:
        body = ("$SUBROUTINE ADVAN1 TRANS2\n$PK\n" + "\n".join(r_stmts(case["stmts"] + EXTRA_PK, rng)) + "\n"
                + "$ERROR\n" + "\n".join(r_stmts(case["stmts2"] + [Y_ERR], rng)) + "\n")
    return pre + body + post


# ================================================================ wire forms

def w_expr(e, quirk=False):
    """quirk=True: the term as pharmpy's lexer reads the rendered text: `-2**2` is `(-2)**2` because a sign directly
    before a numeric literal is taken into the literal (finding: unary-minus-literal-power)."""
    k = e[0]
    if quirk and k == "neg" and e[1][0] == "pow" and e[1][1][0] == "num":
        return ["pow", ["neg", w_expr(e[1][1])], w_expr(e[1][2], True)]
    if quirk and k in ("fn", "neg"):
        return [e[1].lower() if k == "fn" else "neg", w_expr(e[2] if k == "fn" else e[1], True)]
    if quirk and k not in ("num", "sym", "par"):
        return [k, w_expr(e[1], True), w_expr(e[2], True)]
    if k == "num":
        p, _, q = e[1].partition("/")
        return int(p) if not q else ["div", int(p), int(q)]
    if k == "sym":
        return e[1]
    if k == "par":
        return f"{e[1]}({e[2]})"
    if k == "fn":
        return [e[1].lower(), w_expr(e[2])]
    if k == "neg":
        return ["neg", w_expr(e[1])]
    return [k, w_expr(e[1]), w_expr(e[2])]


def w_cond(c, quirk=False):
    if c[0] == "not":
        return ["not", w_cond(c[1], quirk)]
    if c[0] in ("and", "or"):
        return [c[0], w_cond(c[1], quirk), w_cond(c[2], quirk)]
    return [c[0], w_expr(c[1], quirk), w_expr(c[2], quirk)]


def w_item(st, ctr, quirk=False):
    if st[0] == "=":
        return ["=", st[1], w_expr(st[2], quirk)]
    if st[0] == "if":
        return ["if", w_cond(st[1], quirk), st[2], w_expr(st[3], quirk)]
    ctr[0] += 1
    return ["opq", ctr[0]]


def w_prog(stmts, quirk=False):
    ctr = [0]
    out = []
    for st in stmts:
        if st[0] in ("=", "if"):
            out.append(w_item(st, ctr, quirk))
        else:
            brs = [[w_cond(c, quirk), [w_item(s, ctr, quirk) for s in b]] for c, b in st[1]]
            els = ["noelse"] if st[2] is None else ["else"] + [w_item(s, ctr, quirk) for s in st[2]]
            out.append(["block", brs, els])
    return out, ctr[0]


def has_mod(x):
    return isinstance(x, list) and ((len(x) > 0 and x[0] == "fmod") or any(has_mod(y) for y in x))


def has_signpow(x):
    """a unary minus directly before `literal ** …` somewhere in the statement / expression."""
    if not isinstance(x, list):
        return False
    if len(x) >= 2 and x[0] == "neg" and isinstance(x[1], list) and x[1][0] == "pow" and x[1][1][0] == "num":
        return True
    return any(has_signpow(y) for y in x)


# ================================================================ exact evaluation

class Undef(Exception):
    """kind: 'arith' (division by zero, log of a non-positive number …), 'unset' (variable without value),
    'nopiece' (no branch of a piecewise applies)."""

    def __init__(self, kind="arith"):
        super().__init__(kind)
        self.kind = kind


def worker_init():
    global sympy, read_model_from_string, AppliedUndef, Assignment, output
    import warnings
    warnings.simplefilter("ignore")
    import sympy  # noqa
    from sympy.core.function import AppliedUndef  # noqa
    from pharmpy.model import Assignment, output  # noqa
    from pharmpy.modeling import read_model_from_string  # noqa


def _chk(v):
    if v.has(sympy.nan, sympy.zoo, sympy.oo, sympy.I) or v.is_real is False:
        raise Undef()
    return v


def _truth(r):
    if r is sympy.true or r is True:
        return True
    if r is sympy.false or r is False:
        return False
    try:
        return bool(r)
    except TypeError:
        raise Undef()


def _rel(op, a, b):
    d = a - b
    if d.has(sympy.nan, sympy.zoo, sympy.oo):
        raise Undef()
    if not d.is_Rational:
        d = sympy.N(d, 40)            # symbolic (exp, log, sqrt): decided as it is; exp(-30) is not 0
    elif d != 0 and abs(d) < sympy.Rational(1, 10**12):
        d = sympy.Integer(0)          # float literals are folded in binary floating point by sympy/symengine
    return {"gt": d > 0, "ge": d >= 0, "lt": d < 0, "le": d <= 0, "eq": d == 0, "ne": d != 0}[op]


FN = {"exp": lambda a: sympy.exp(a), "log": lambda a: sympy.log(a), "sqrt": lambda a: sympy.sqrt(a), "abs": lambda a: sympy.Abs(a)}


_MOD_FORTRAN = [True]


def _kleene(is_and, thunks):
    """three-valued AND/OR: a decided operand decides the result even if another operand is undefined
    (NM-TRAN does not evaluate the ELSE IF condition of a block whose earlier branch is taken, whereas sympy merges
    `(v, c1), (v, c2)` into `(v, c1 | c2)`; `true | undefined` must then be true)."""
    undef = None
    for th in thunks:
        try:
            v = th()
        except Undef as u:
            undef = u
            continue
        if v != is_and:          # a false operand of AND / a true operand of OR decides
            return v
    if undef is not None:
        raise undef
    return is_and


def ev(s, env):
    """wire expression -> exact value (sympy number) or python bool; raises Undef."""
    if isinstance(s, int):
        return sympy.Integer(s)
    if isinstance(s, str):
        try:
            return sympy.Integer(int(s))
        except ValueError:
            pass
        v = env.get(s)
        if v is None:
            raise Undef("unset")
        return v
    op = s[0]
    if op == "nan":
        raise Undef("nopiece")
    if op == "ite":
        return ev(s[2], env) if _truth(ev(s[1], env)) else ev(s[3], env)
    if op in ("and", "or"):
        return _kleene(op == "and", [lambda q=q: _truth(ev(q, env)) for q in s[1:]])
    if op == "not":
        return not _truth(ev(s[1], env))
    a = ev(s[1], env)
    if op == "neg":
        return -a
    if op in FN:
        return _chk(FN[op](a))
    b = ev(s[2], env)
    if op in RELS:
        return bool(_rel(op, a, b))
    if op == "fmod":
        if b == 0:
            raise Undef()
        if _MOD_FORTRAN[0]:
            q = a / b
            tq = sympy.floor(q) if q >= 0 else sympy.ceiling(q)      # Fortran MOD(a,b) = a - b*INT(a/b): sign of a
            return a - b * tq
        return sympy.Mod(a, b)                                        # sympy.Mod: sign of b
    if op == "add":
        return a + b
    if op == "sub":
        return a - b
    if op == "mul":
        return a * b
    if op == "div":
        if b == 0:
            raise Undef()
        return a / b
    if op == "pow":
        return _chk(a ** b)
    raise ValueError(f"unknown op {op}")


REL_CLS = None


def ev_sympy(e, env):
    """sympy expression (pharmpy's) -> exact value or bool; raises Undef.  `env` maps printed atom names to values."""
    if e.is_Float:
        return sympy.Rational(float(e))
    if e is sympy.nan:
        raise Undef("nopiece")       # a Piecewise without applicable branch folds to nan
    if e is sympy.zoo or e is sympy.oo or e is sympy.S.NegativeInfinity:
        raise Undef("arith")
    if e.is_Number:
        return e
    if e is sympy.true:
        return True
    if e is sympy.false:
        return False
    if e.is_Symbol or isinstance(e, AppliedUndef):
        v = env.get(str(e))
        if v is None:
            raise Undef("unset")
        return v
    if isinstance(e, sympy.Piecewise):
        for val, cond in e.args:
            if _truth(ev_sympy(cond, env)):
                return ev_sympy(val, env)
        raise Undef("nopiece")
    if isinstance(e, (sympy.And, sympy.Or)):
        return _kleene(isinstance(e, sympy.And), [lambda a=a: _truth(ev_sympy(a, env)) for a in e.args])
    if isinstance(e, sympy.Not):
        return not _truth(ev_sympy(e.args[0], env))
    if isinstance(e, sympy.core.relational.Relational):
        a, b = ev_sympy(e.lhs, env), ev_sympy(e.rhs, env)
        op = {sympy.StrictGreaterThan: "gt", sympy.GreaterThan: "ge", sympy.StrictLessThan: "lt", sympy.LessThan: "le",
              sympy.Equality: "eq", sympy.Unequality: "ne"}[type(e)]
        return bool(_rel(op, a, b))
    args = [ev_sympy(a, env) for a in e.args]
    if any(isinstance(a, bool) for a in args):
        raise Undef()
    return _chk(e.func(*args))


def same(a, b):
    if isinstance(a, bool) or isinstance(b, bool):
        return a == b
    if a == b:
        return True
    d = a - b
    scale = max(1, abs(sympy.N(a, 20)), abs(sympy.N(b, 20)))
    return abs(sympy.N(d, 40)) <= sympy.Float("1e-10") * scale


def rand_value(rng, name):
    if name in DATA or name in ("F", "TIME", "AMT"):
        return sympy.Rational(rng.choice([-2, -1, 0, 0, 1, 1, 2, 3, 1, 2]), rng.choice([1, 1, 1, 2]))
    return sympy.Rational(rng.randint(-6, 12), rng.choice([1, 2, 4]))


# ================================================================ the NM-TRAN reference interpreter (python side)

def nm_exec(stmts, env):
    """executes in place; a right-hand side that reads an unassigned variable makes the target unassigned."""
    for st in stmts:
        if st[0] == "=":
            try:
                env[st[1]] = ev(w_expr(st[2]), env)
            except Undef:
                env[st[1]] = None
        elif st[0] == "if":
            try:
                c = _truth(ev(w_cond(st[1]), env))
            except Undef:
                env[st[2]] = None
                continue
            if c:
                try:
                    env[st[2]] = ev(w_expr(st[3]), env)
                except Undef:
                    env[st[2]] = None
        else:
            taken = None
            bad = False
            for c, b in st[1]:
                try:
                    if _truth(ev(w_cond(c), env)):
                        taken = b
                        break
                except Undef:
                    bad = True
                    break
            if bad:
                for x in assigned_of(st):
                    env[x] = None
                continue
            if taken is None and st[2] is not None:
                taken = st[2]
            if taken is not None:
                nm_exec(taken, env)


# ---------------------------------------------------------------- Safe, re-implemented on the AST (mirrors Spec.lean)

def e_syms(e):
    k = e[0]
    if k == "num":
        return []
    if k == "sym":
        return [e[1]]
    if k == "par":
        return [f"{e[1]}({e[2]})"]
    out = []
    for a in e[1:]:
        if isinstance(a, list):
            out += e_syms(a)
    return out


def stmt_unsafe(seen, st):
    if st[0] == "=":
        return []
    if st[0] == "if":
        return [] if st[2] in seen else ["uninit"]
    brs, els = st[1], st[2]
    bodies = [b for _, b in brs] + ([els] if els is not None else [])
    direct = [[s for s in b if s[0] == "="] for b in bodies]
    bsyms = [[s[1] for s in d] for d in direct]
    assigned = [x for b in bsyms for x in b]
    reads = [y for c, _ in brs for y in e_syms(c)] + [y for d in direct for s in d for y in e_syms(s[2])]
    out = []
    if any(s[0] != "=" for b in bodies for s in b):
        out.append("nested")
    if any(len(set(b)) != len(b) for b in bsyms):
        out.append("twice")
    if any(x in reads for x in assigned):
        out.append("reads")
    if any(x not in bsyms[i] for i in range(len(bsyms)) for j in range(i + 1, len(bsyms)) for x in bsyms[j]):
        out.append("gap")
    last = bsyms[-1] if els is not None else []
    if any((x not in seen) and (x not in last) for x in assigned):
        out.append("uninit")
    if len(brs) == 1 and els is not None and not direct[0]:
        out.append("emptyif")
    return out


def stmt_count(st):
    if st[0] in ("=", "if"):
        return 1
    seen = []
    for x in [s[1] for _, b in st[1] for s in b if s[0] == "="] + [s[1] for s in (st[2] or []) if s[0] == "="]:
        if x not in seen:
            seen.append(x)
    return len(seen)


def direct_targets(st):
    if st[0] == "=":
        return [st[1]]
    if st[0] == "if":
        return [st[2]]
    out = []
    for x in [s[1] for _, b in st[1] for s in b if s[0] == "="] + [s[1] for s in (st[2] or []) if s[0] == "="]:
        if x not in out:
            out.append(x)
    return out


def classify(stmts):
    """per top-level statement: (unsafe components, number of IR statements)."""
    seen = []
    res = []
    for st in stmts:
        res.append((stmt_unsafe(seen, st), stmt_count(st)))
        for x in direct_targets(st):
            seen.append(x)
    return res


CLS = {"reads": "block-if-reads-assigned-symbol", "gap": "block-if-branch-gap", "twice": "block-if-assigned-twice",
       "nested": "block-if-nested-statement-dropped", "uninit": "conditional-assignment-not-previously-assigned-in-record"}


def mon_class(components):
    for c in ("nested", "twice", "gap", "reads", "uninit"):
        if c in components:
            return CLS[c]
    if "emptyif" in components:
        return "translate-unsound-empty-if-else"
    return "translate-unsound-safe-statement"


# ================================================================ cases

def skeleton_of_model(e):
    """(n conditions, has default) of an ite chain; None when sympy may have rewritten the piecewise."""
    conds, vals = [], []
    while isinstance(e, list) and e[0] == "ite":
        conds.append(e[1])
        vals.append(e[2])
        e = e[3]
    if not conds:
        return None
    has_default = not (isinstance(e, list) and e[0] == "nan")
    if has_default:
        vals.append(e)

    def has_sym(x):
        if isinstance(x, str):
            try:
                int(x)
                return False
            except ValueError:
                return True
        return isinstance(x, list) and any(has_sym(y) for y in x[1:])
    if any(not has_sym(c) for c in conds):
        return None
    if any(conds[i] == conds[j] for i in range(len(conds)) for j in range(i + 1, len(conds))):
        return None
    if any(vals[i] == vals[i + 1] for i in range(len(vals) - 1)):
        return None
    for c in conds:              # and/or/not and compound operands may be rewritten by sympy's canonicalisation
        if c[0] in ("and", "or", "not") or not isinstance(c[1], str):
            return None
    return (len(conds), has_default)


def k_record(drv, wire, rec_statements, rng, label, k, tags):
    if drv is None:
        return
    m = drv.ask(["translate", wire])
    code = [s for s in rec_statements]
    if len(m) != len(code):
        k.append(f"{label}: model emits {len(m)} statements {[x[1] for x in m]}, code {len(code)} {[str(s.symbol) for s in code]}")
        return
    for i, (ms, cs) in enumerate(zip(m, code)):
        if ms[1] != str(cs.symbol):
            k.append(f"{label}: statement {i}: model assigns {ms[1]}, code {cs.symbol}")
            return
        ce = cs.expression._sympy_()
        names = sorted({str(a) for a in ce.free_symbols} | _wsyms(ms[2]))
        for trial in range(4):
            env = {nme: rand_value(rng, nme) for nme in names}
            kinds = []
            try:
                _MOD_FORTRAN[0] = False          # model vs code: the code's MOD is sympy.Mod
                vm = ev(ms[2], env)
            except Undef as u:
                vm = None
                kinds.append(u.kind)
            finally:
                _MOD_FORTRAN[0] = True
            try:
                vc = ev_sympy(ce, env)
            except Undef as u:
                vc = None
                kinds.append(u.kind)
            if "arith" in kinds:
                continue      # sympy may cancel a division by zero; definedness of arithmetic is not compared
            if (vm is None) != (vc is None) or (vm is not None and not same(vm, vc)):
                k.append(f"{label}: statement {i} ({ms[1]}): model {ms[2]} = {vm}, code {ce} = {vc} at {env}")
                return
        sk = skeleton_of_model(ms[2])
        if sk is not None:
            tags.append("k:skeleton-compared")
            if isinstance(ce, sympy.Piecewise):
                # sympy merges branches with equal values and drops decided conditions: only "no more
                # conditions than the model, and a default only if the model has one" is stable
                nc = sum(1 for _, c in ce.args if c is not sympy.true)
                hd = any(c is sympy.true for _, c in ce.args)
                if nc > sk[0] or (hd and not sk[1] and nc == sk[0]):
                    k.append(f"{label}: statement {i} ({ms[1]}): model skeleton {sk}, code {(nc, hd)}: {ce}")
                    return


def _wsyms(s, acc=None):
    acc = set() if acc is None else acc
    if isinstance(s, str):
        try:
            int(s)
        except ValueError:
            acc.add(s)
    elif isinstance(s, list):
        for x in s[1:]:
            _wsyms(x, acc)
    return acc


def has_fn(w):
    if isinstance(w, list) and w:
        return (isinstance(w[0], str) and (w[0] in FN or w[0] == "fmod")) or any(has_fn(x) for x in w)
    return False


def run_prog(case, drv):
    rng = random.Random(case["seed"])
    k, mon, tags = [], [], []
    text = control_stream(case, rng)
    try:
        model = read_model_from_string(text)
    except Exception as e:
        cls = "boolean-parentheses-rejected" if (case.get("bool_parens") and type(e).__name__ == "UnexpectedToken") else "read-raises"
        mon.append({"cls": cls, "what": f"read_model_from_string raised {type(e).__name__}: {str(e)[:200]} on\n{text}"})
        return {"k": k, "mon": mon, "tags": ["read-raises"], "nontrivial": True}
    if case["layout"] == "pred":
        records = [("pred", case["stmts"] + [Y_PRED])]
    else:
        records = [("pk", case["stmts"] + EXTRA_PK), ("error", case["stmts2"] + [Y_ERR])]
    cstream = model.internals.control_stream
    recs = {"pred": cstream.get_pred_pk_record(), "pk": cstream.get_pred_pk_record(), "error": cstream.get_error_record()}
    all_unsafe = []
    for name, stmts in records:
        full = stmts
        wire, nopq = w_prog(full, quirk=True)
        true_wire, _ = w_prog(full)
        comps = sorted({c for u, _ in classify(full) for c in u})
        if has_signpow(full):
            tags.append("class:signpow")
        all_unsafe += comps
        # K (a): translate vs the record's statements
        k_record(drv, wire, list(recs[name].statements), rng, name, k, tags)
        if drv is not None:
            # K (b): classification
            u = drv.ask(["unsafe", wire])
            mine = [c for uu, _ in classify(full) for c in uu] + ["opaque"] * 0
            if u[1:] != mine or (u[0] == "safe") != (not mine):
                k.append(f"{name}: Lean unsafeFrom {u} vs harness {mine}")
            # K (c): Lean nmRun / run∘translate vs python interpreter / pharmpy IR (function-free, nothing opaque, one record)
            if nopq == 0 and not has_fn(wire) and case["layout"] == "pred":
                wire = true_wire
                tags.append("k:lean-nmrun-compared")
                names = sorted(_wsyms(wire) - set(TARGETS))
                tg = sorted(set(TARGETS) & _wsyms(wire))
                for trial in range(2):
                    env = {nme: rand_value(rng, nme) for nme in names}
                    wenv = [[nme, _wnum(v)] for nme, v in env.items()]
                    lean_nm = {x: v for x, v in drv.ask(["nmrun", wire, wenv, tg])}
                    py = dict(env)
                    nm_exec(full, py)
                    for x in tg:
                        pv = py.get(x)
                        if pv is None:
                            continue   # python: reads an unassigned variable; Lean gives it the undefined value
                        if lean_nm[x] == "undef" or sympy.Rational(lean_nm[x]) != pv:
                            k.append(f"{name}: Lean nmRun {x}={lean_nm[x]}, harness interpreter {pv} at {env}")
                            break
    for c in sorted(set(all_unsafe)) or ["safe"]:
        tags.append(f"class:{c}")
    tags.append("safe-program" if not all_unsafe else "unsafe-program")
    tags.append(f"layout:{case['layout']}")

    # ---- monitor: model.statements executed in order vs the NM-TRAN interpreter
    sts = list(model.statements)
    ir = [s for s in sts if isinstance(s, Assignment)]
    thetas = [p for p in model.parameters.names if p.startswith("THETA")]
    ren = {f"THETA({i + 1})": nme for i, nme in enumerate(thetas)}
    ren.update({f"ETA({i + 1})": nme for i, nme in enumerate(model.random_variables.etas.names)})
    ren.update({f"EPS({i + 1})": nme for i, nme in enumerate(model.random_variables.epsilons.names)})
    seq = []      # (record statements, per-statement (unsafe, count))
    seq = [(nme, stmts, 1 if nme == "error" else 0) for nme, stmts in records]   # 1 = the F link statement precedes
    expected = sum(cnt for _, stmts, _ in seq for _, cnt in classify(stmts)) + (1 if case["layout"] == "pkerr" else 0)
    if len(ir) != expected:
        comps = sorted(set(all_unsafe))
        mon.append({"cls": "statement-count", "what": f"model has {len(ir)} assignments, {expected} expected from the program text\n{text}"})
        return {"k": k, "mon": mon, "tags": tags, "nontrivial": True}
    base_names = ["X", "W", "TIME", "AMT", "THETA(1)", "THETA(2)", "THETA(3)", "ETA(1)", "ETA(2)", "EPS(1)"]
    done = False
    for trial in range(4):
        if done:
            break
        env_nm = {nme: rand_value(rng, nme) for nme in base_names}
        env_ir = {ren.get(nme, nme): v for nme, v in env_nm.items()}
        if case["layout"] == "pkerr":
            a = rand_value(rng, "F")
            env_ir["A_CENTRAL(t)"] = a
        pos = 0
        for rname, stmts, skip in seq:
            if skip:
                # F = A_CENTRAL(t)
                s = ir[pos]
                try:
                    env_ir[str(s.symbol)] = ev_sympy(s.expression._sympy_(), env_ir)
                except Undef:
                    env_ir[str(s.symbol)] = None
                env_nm["F"] = a
                pos += 1
            cl = classify(stmts)
            for st, (unsafe, cnt) in zip(stmts, cl):
                nm_exec([st], env_nm)
                for s in ir[pos:pos + cnt]:
                    try:
                        env_ir[str(s.symbol)] = ev_sympy(s.expression._sympy_(), env_ir)
                    except Undef:
                        env_ir[str(s.symbol)] = None
                pos += cnt
                bad = None
                for x in sorted(set(TARGETS) | {"CL", "V", "Y"}):
                    vn = env_nm.get(x)
                    if vn is None:
                        continue                     # never assigned / reads an unassigned variable: not compared
                    vi = env_ir.get(x)
                    if vi is None or not same(vn, vi):
                        bad = (x, vn, vi)
                        break
                if bad:
                    x, vn, vi = bad
                    cls = mon_class(unsafe)
                    if cls == "translate-unsound-safe-statement" and has_signpow(st):
                        cls = "unary-minus-literal-power"
                    elif cls == "translate-unsound-safe-statement" and has_mod(st):
                        cls = "mod-negative-dividend"
                    shown = {q: str(v) for q, v in env_nm.items() if q in base_names or q == "F"}
                    mon.append({"cls": cls, "what": f"after `{' | '.join(r_stmts([st], random.Random(0)))}` ({rname}) NM-TRAN has {x} = {vn}, "
                                f"the model object has {x} = {'undefined' if vi is None else vi} at {shown}; components failing: {unsafe}"})
                    done = True
                    break
            if done:
                break
    nontrivial = any(st[0] != "=" for _, stmts, _ in seq for st in stmts)
    return {"k": k, "mon": mon, "tags": tags, "nontrivial": nontrivial}


def _wnum(v):
    v = sympy.Rational(v)
    return int(v.p) if v.q == 1 else ["div", int(v.p), int(v.q)]


# ---------------------------------------------------------------- ADVAN / TRANS

def run_advan(case, drv):
    rng = random.Random(case["seed"])
    k, mon, tags = [], [], [f"advan:{case['advan']}", f"trans:{case['trans']}"]
    a, t = case["advan"], case["trans"]
    if drv is None:
        return {"k": k, "mon": mon, "tags": tags + ["advan-skipped-no-driver"], "nontrivial": False}
    basic = drv.ask(["basic", a, t])
    spec = drv.ask(["specflows", a, t])
    code = drv.ask(["codeflows", a, t])
    wiring = drv.ask(["wiring", a])
    if basic == "none" or spec == "none":
        raise RuntimeError(f"no spec entry for {a} {t}")
    pk = "\n".join(f"{p} = THETA({i + 1})" for i, p in enumerate(basic))
    extras = case.get("extras")
    if extras:
        # scaling, lag time and bioavailability of the default observation / dose compartments
        so, sd_ = int(wiring[1]), int(wiring[3])
        scal = f"S{so}" if extras == "Sn" else "SC"
        pk += f"\n{scal} = THETA(1)*2\nALAG{sd_} = THETA(1)/3\nF{sd_} = THETA(1)/(THETA(1) + 1)"
    text = ("$PROBLEM c01\n$INPUT ID TIME DV AMT\n$DATA c01.csv IGNORE=@\n"
            f"$SUBROUTINE {a} {t}\n$PK\n{pk}\n$ERROR\nY = F + EPS(1)\n"
            "$THETA " + " ".join("(0,%d)" % (i + 1) for i in range(len(basic))) + "\n$OMEGA 0.1\n$SIGMA 1\n$ESTIMATION METHOD=1\n")
    try:
        model = read_model_from_string(text)
    except Exception as e:
        mon.append({"cls": "read-raises", "what": f"{a} {t}: read_model_from_string raised {type(e).__name__}: {str(e)[:200]}"})
        return {"k": k, "mon": mon, "tags": tags, "nontrivial": True}
    cs = model.statements.ode_system
    cmap = dict(model.internals.compartment_map)
    comps = {nme: cs.find_compartment(nme) for nme in cs.compartment_names}
    flows = {}
    for n1, c1 in comps.items():
        for n2, c2 in list(comps.items()) + [("OUTPUT", output)]:
            r = cs.get_flow(c1, c2)
            if r != 0:
                flows[(cmap[n1], cmap[n2])] = r._sympy_()
    defined = {str(s.symbol) for s in model.statements.before_odes}
    amounts = {str(x) for x in cs.amounts}

    def cmp_flows(table, label, sink):
        tab = {(int(f[0]), int(f[1])): f[2] for f in table}
        if set(tab) != set(flows):
            sink(f"{a} {t}: flows of the model object {sorted(flows)} vs {label} {sorted(tab)}")
            return
        for key, we in tab.items():
            ce = flows[key]
            names = sorted({str(x) for x in ce.atoms(sympy.Symbol, AppliedUndef)} | _wsyms(we))
            for trial in range(5):
                env = {nme: sympy.Rational(rng.randint(1, 40), rng.randint(1, 9)) for nme in names}
                try:
                    v1, v2 = ev(we, env), ev_sympy(ce, env)
                except Undef:
                    continue
                if not same(v1, v2):
                    sink(f"{a} {t}: rate {key[0]}->{key[1]}: model object {ce} = {v2}, {label} {we} = {v1} at {env}")
                    return
    # K (d): generated table vs the model object
    if code == "none":
        k.append(f"{a} {t}: no generated entry")
    else:
        cmp_flows(code, "generated table", k.append)
    # monitor 1: closed over the basic parameters
    free = set()
    for r in flows.values():
        free |= {str(x) for x in r.atoms(sympy.Symbol, AppliedUndef)}
    open_syms = sorted(free - defined - amounts)
    if open_syms:
        tags.append("advan-open")
        mon.append({"cls": "advan-trans-undefined-rate-symbols",
                    "what": f"$SUBROUTINE {a} {t} with $PK defining exactly {basic}: the compartmental system's rates mention "
                            f"{open_syms}, which no statement defines ({ {kk: str(v) for kk, v in flows.items()} })"})
    else:
        # monitor 2: rates are PREDPP's
        cmp_flows(spec, "PREDPP table", lambda w: mon.append({"cls": "advan-trans-rate-mismatch", "what": w}))
    # monitor 3: default dose / observation compartment
    _, spec_obs, _, spec_dose = wiring
    dosed = sorted(cmap[nme] for nme, c in comps.items() if len(c.doses) > 0)
    if dosed != [int(spec_dose)]:
        mon.append({"cls": "advan-default-dose-compartment", "what": f"{a}: dosed compartments {dosed}, NONMEM default {spec_dose}"})
    fl = [s for s in model.statements.after_odes if isinstance(s, Assignment) and str(s.symbol) == "F"]
    inv = {v: kk for kk, v in cmap.items()}
    want = f"A_{inv[int(spec_obs)]}(t)"
    if extras:
        want = f"{want}/{scal}"
        dc = comps[inv[int(spec_dose)]]
        if str(dc.lag_time) != f"ALAG{sd_}" or str(dc.bioavailability) != f"F{sd_}":
            mon.append({"cls": "advan-lag-bioavailability", "what": f"{a}: dose compartment {dc.name} has lag_time {dc.lag_time}, bioavailability "
                        f"{dc.bioavailability}; the $PK defines ALAG{sd_} and F{sd_}"})
        others = [c for nme, c in comps.items() if nme != dc.name and (str(c.lag_time) != "0" or str(c.bioavailability) != "1")]
        if others:
            mon.append({"cls": "advan-lag-bioavailability", "what": f"{a}: compartments {[c.name for c in others]} got a lag time / bioavailability that $PK does not define"})
    if not fl or str(fl[0].expression) != want:
        mon.append({"cls": "advan-default-observation-compartment", "what": f"{a}: F = {fl[0].expression if fl else None}, expected {want}"})
    if wiring[0] != wiring[1] or wiring[2] != wiring[3]:
        k.append(f"{a}: generated wiring {wiring}")
    return {"k": k, "mon": mon, "tags": tags, "nontrivial": True}


# ---------------------------------------------------------------- $THETA forms (F15)

def run_theta(case, drv):
    k, mon, tags = [], [], [f"theta:{case['form']}"]
    lo, init, up, n = case["low"], case["init"], case["up"], case["n"]
    form = case["form"]
    fix = " FIX" if case["fix"] else ""
    base = {"init": f"{init}{fix}", "low-init": f"({lo},{init}{fix})", "low-init-up": f"({lo},{init},{up}{fix})",
            "init-xn": f"({init}{fix})x{n}", "low-init-xn": f"({lo},{init}{fix})x{n}", "low-init-up-xn": f"({lo},{init},{up}{fix})x{n}"}[form]
    reps = n if form.endswith("xn") else 1
    inf = float("inf")
    want = [(float(init), float(lo) if "low" in form else -inf, float(up) if "up" in form else inf, case["fix"])] * reps + [(7.0, -inf, inf, False)]
    text = ("$PROBLEM c01\n$INPUT ID TIME DV\n$DATA c01.csv IGNORE=@\n$PRED\nY = THETA(1) + EPS(1)\n"
            f"$THETA {base} 7\n$OMEGA 0.1\n$SIGMA 1\n$ESTIMATION METHOD=1\n")
    try:
        model = read_model_from_string(text)
    except Exception as e:
        cls = "theta-low-init-xn-rejected" if (form == "low-init-xn" and type(e).__name__ == "UnexpectedToken") else "theta-record-rejected"
        mon.append({"cls": cls, "what": f"`$THETA {base}` raises {type(e).__name__}: {str(e).splitlines()[0][:120]}"})
        return {"k": k, "mon": mon, "tags": tags + ["theta-raises"], "nontrivial": reps > 1}
    got = [(float(p.init), float(p.lower), float(p.upper), bool(p.fix)) for p in model.parameters if p.name.startswith("THETA")]
    if got != want:
        mon.append({"cls": "theta-values", "what": f"`$THETA {base} 7` read as {got}, documented meaning {want}"})
    return {"k": k, "mon": mon, "tags": tags, "nontrivial": reps > 1}


def run_case(case, drv):
    kind = case["kind"]
    if kind == "prog":
        return run_prog(case, drv)
    if kind == "advan":
        return run_advan(case, drv)
    if kind == "theta":
        return run_theta(case, drv)
    if kind == "omega":
        return run_omega(case, drv)
    if kind == "thetas":
        return run_thetas(case, drv)
    if kind == "des":
        return run_des(case, drv)
    if kind == "linear":
        return run_linear(case, drv)
    raise ValueError(kind)


# ================================================================ $OMEGA / $SIGMA forms
# (added after an independently seeded change of the CHOLESKY fill order was not caught)

from fractions import Fraction  # noqa: E402

KW = {"sd": ["STANDARD", "STAN", "SD", "ST", "S"], "var": ["VARIANCE", "VARI", "VAR", "V"],
      "corr": ["CORRELATION", "CORREL", "CORR", "COR"], "cov": ["COVARIANCE", "COVAR", "COV"],
      "chol": ["CHOLESKY", "CHOLES", "CHOL", "CHO"], "fix": ["FIX", "FIXED", "FIXE"],
      "block": ["BLOCK", "BLOC", "BLO"], "diag": ["DIAGONAL", "DIAGON", "DIAG", "DIA"]}
V_DIAG = ["0.1", "0.3", "0.4", "1.5", "2", "0.25", "0.9", "0.64", "1"]
V_COV = ["0.01", "-0.02", "0.005", "0.02", "-0.01", "0.002", "0"]
V_CORR = ["0.3", "-0.394", "0.5", "-0.2", "0.1", "0", "-0.75", "0.15", "-0.1", "0.05", "-0.22"]
V_SD = ["0.8", "0.5", "0.3", "1.2", "0.762", "2"]
V_CHOL = ["0.8", "-0.3", "0.7", "0.2", "1.1", "-0.05", "0.4", "0"]


def g_orec(rng, prev_block):
    r = rng.random()
    if prev_block and r < 0.15:
        return {"t": "same", "size": rng.random() < 0.6, "m": rng.choice([None, None, None, 1, 2, 3]) }
    if r < 0.40:
        items = []
        for _ in range(rng.randint(1, 4)):
            sd = rng.random() < 0.25
            items.append({"v": rng.choice(V_SD if sd else V_DIAG), "reps": rng.choice([1, 1, 1, 2, 3]), "sd": sd,
                          "var": (not sd) and rng.random() < 0.15, "fix": rng.random() < 0.2, "paren": rng.random() < 0.3,
                          "optfirst": rng.random() < 0.3})
        if rng.random() < 0.03:
            items[rng.randrange(len(items))].update({"v": "0", "fix": False})      # documented refusal
        return {"t": "diag", "items": items, "diagn": rng.random() < 0.25}
    n = rng.choice([1, 2, 2, 3, 3, 3, 4, 4, 5])
    form = rng.choice(["plain", "plain", "sd", "corr", "sdcorr", "chol", "chol"])
    sd, corr, chol = form in ("sd", "sdcorr"), form in ("corr", "sdcorr"), form == "chol"
    vals = []
    for i in range(n):
        for j in range(i + 1):
            if chol:
                v = rng.choice([x for x in V_CHOL if not x.startswith("-") and x != "0"]) if i == j else rng.choice(V_CHOL)
            elif i == j:
                v = rng.choice(V_SD if sd else V_DIAG)
            elif corr:
                # diagonally dominant correlation matrix (hence positive definite, as NM-TRAN requires)
                v = rng.choice([c for c in V_CORR if abs(float(c)) * (n - 1) <= 0.9])
            else:
                v = rng.choice(V_COV)
            vals.append([v, 1])
    # merge equal neighbours into (v)xn sometimes
    if rng.random() < 0.3:
        merged = []
        for v, _ in vals:
            if merged and merged[-1][0] == v and rng.random() < 0.8:
                merged[-1][1] += 1
            else:
                merged.append([v, 1])
        vals = merged
    return {"t": "block", "n": n, "sd": sd, "corr": corr, "chol": chol, "fix": rng.random() < 0.2,
            "var": (not sd and not chol) and rng.random() < 0.2, "cov": (not corr and not chol) and rng.random() < 0.2,
            "vals": vals, "optpos": rng.choice(["before", "after", "afterfirst", "mixed"])}


def g_omega_case(rng, seed):
    def recs():
        out = []
        for _ in range(rng.randint(1, 4)):
            prev = bool(out) and out[-1]["t"] in ("block", "same")
            out.append(g_orec(rng, prev))
        return out
    return {"kind": "omega", "omega": recs(), "sigma": recs() if rng.random() < 0.6 else [{"t": "diag", "items": [{"v": "1", "reps": 1, "sd": False, "var": False, "fix": False, "paren": False, "optfirst": False}], "diagn": False}],
            "seed": seed}


def r_orec(rec, name, rng, comma=False):
    k = lambda key: rng.choice(KW[key])
    if rec["t"] == "same":
        s = f"${name} {k('block')}" + (f"({rec['n_prev']})" if rec["size"] else "") + " SAME"
        if rec["m"] is not None:
            s += f"({rec['m']})"
        return s
    if rec["t"] == "values":
        return f"${name} {k('block')}({rec['n']}) VALUES({rec['d']},{rec['o']})"
    if rec["t"] == "diag":
        parts = []
        for it in rec["items"]:
            opts = ([k("sd")] if it["sd"] else []) + ([k("var")] if it["var"] else []) + ([k("fix")] if it["fix"] else [])
            if it["reps"] > 1 or it["paren"]:
                inner = (" ".join(opts) + " " + it["v"]) if (opts and it["optfirst"]) else " ".join([it["v"]] + opts)
                parts.append(f"({inner})" + (f"x{it['reps']}" if it["reps"] > 1 else ""))
            else:
                parts.append(" ".join([it["v"]] + opts))
        total = sum(it["reps"] for it in rec["items"])
        head = f"${name} " + (f"{k('diag')}({total}) " if rec["diagn"] else "")
        return head + (", " if comma else rng.choice([" ", "\n", "  "])).join(parts)
    opts = ([k("sd")] if rec["sd"] else []) + ([k("var")] if rec["var"] else []) + ([k("corr")] if rec["corr"] else []) \
        + ([k("cov")] if rec["cov"] else []) + ([k("chol")] if rec["chol"] else []) + ([k("fix")] if rec["fix"] else [])
    rng.shuffle(opts)
    pos = rec["optpos"]
    before, after, first = [], [], []
    for o in opts:
        where = pos if pos != "mixed" else rng.choice(["before", "after", "afterfirst"])
        {"before": before, "after": after, "afterfirst": first}[where].append(o)
    vals = []
    for idx, (v, reps) in enumerate(rec["vals"]):
        if reps > 1:
            vals.append(f"({v})x{reps}")
        else:
            vals.append(v)
        if idx == 0 and first:
            if reps > 1:
                vals[-1] = f"({v} {' '.join(first)})x{reps}"
            else:
                vals[-1] = v + " " + " ".join(first)
    # lay the values out row by row where possible
    sep = ", " if comma else rng.choice([" ", "\n", "  "])        # pharmpy's grammar has no comma between values
    return f"${name} " + " ".join(before + [f"{k('block')}({rec['n']})"] + after) + "\n" + sep.join(vals)


def _fr(s):
    return Fraction(s)


def ref_blocks(recs):
    """NONMEM's meaning of a list of $OMEGA (or $SIGMA) records: list of (n, lower triangle rows, fix);
    entries are Fractions or ('sq', signed square) for VARIANCE CORRELATION off-diagonals.  None = refusal."""
    out = []
    for rec in recs:
        if rec["t"] == "same":
            if not out:
                return None
            for _ in range(rec["m"] or 1):
                out.append(out[-1])
        elif rec["t"] == "values":
            n = rec["n"]
            out.append((n, [[_fr(rec["d"]) if i == j else _fr(rec["o"]) for j in range(i + 1)] for i in range(n)], False))
        elif rec["t"] == "diag":
            for it in rec["items"]:
                v = _fr(it["v"])
                if v == 0 and not it["fix"]:
                    return None
                for _ in range(it["reps"]):
                    out.append((1, [[v * v if it["sd"] else v]], it["fix"]))
        else:
            n = rec["n"]
            x = [_fr(v) for v, reps in rec["vals"] for _ in range(reps)]
            rows, pos = [], 0
            for i in range(n):                      # the values are listed row by row of the lower triangle
                rows.append(x[pos:pos + i + 1])
                pos += i + 1
            M = [[None] * (i + 1) for i in range(n)]
            for i in range(n):
                for j in range(i + 1):
                    if rec["chol"]:
                        M[i][j] = sum(rows[i][kk] * rows[j][kk] for kk in range(j + 1))
                    elif i == j:
                        M[i][j] = rows[i][i] ** 2 if rec["sd"] else rows[i][i]
                    elif rec["corr"]:
                        if rec["sd"]:
                            M[i][j] = rows[i][j] * rows[i][i] * rows[j][j]
                        else:
                            r = rows[i][j]
                            M[i][j] = ("sq", r * abs(r) * rows[i][i] * rows[j][j])
                    else:
                        M[i][j] = rows[i][j]
            out.append((n, M, rec["fix"]))
    return out


def w_orec(rec):
    fr = lambda s: (lambda f: str(f.numerator) if f.denominator == 1 else f"{f.numerator}/{f.denominator}")(_fr(s))
    if rec["t"] == "same":
        return ["same"]
    if rec["t"] == "diag":
        return ["diag"] + [[fr(it["v"]), it["reps"], it["sd"], it["var"], it["fix"]] for it in rec["items"]]
    return ["block", rec["n"], rec["sd"], rec["corr"], rec["chol"], rec["fix"]] + [[fr(v), reps] for v, reps in rec["vals"]]


def _is_pd(n, M):
    """positive definiteness of a reference block (floats suffice: generated blocks are diagonally dominant)."""
    import math
    A = [[0.0] * n for _ in range(n)]
    for i in range(n):
        for j in range(i + 1):
            v = M[i][j]
            f = math.copysign(math.sqrt(abs(float(v[1]))), float(v[1])) if isinstance(v, tuple) else float(v)
            A[i][j] = A[j][i] = f
    L = [[0.0] * n for _ in range(n)]
    for i in range(n):
        for j in range(i + 1):
            sm = A[i][j] - sum(L[i][kk] * L[j][kk] for kk in range(j))
            if i == j:
                if sm <= 1e-9:
                    return False
                L[i][i] = math.sqrt(sm)
            else:
                L[i][j] = sm / L[j][j]
    return True


def _close(code_val, ref):
    """float from the code vs exact reference (Fraction or ('sq', signed square))."""
    c = Fraction(float(code_val))
    if isinstance(ref, tuple):
        sq = c * abs(c)
        return abs(sq - ref[1]) <= Fraction(1, 10**11) * max(1, abs(ref[1]))
    return abs(c - ref) <= Fraction(1, 10**12) * max(1, abs(ref))


def _lean_entry(tag, s):
    f = Fraction(s)
    return ("sq", f) if tag == "sq" else f


def code_cov_blocks(model, rvs):
    pv = {p.name: p for p in model.parameters}
    out = []
    for d in rvs:
        n = len(d.names)
        V = d.variance
        M, fixes = [], []
        for i in range(n):
            row = []
            for j in range(i + 1):
                nme = str(V if n == 1 else V[i, j])
                row.append(pv[nme].init)
                fixes.append(pv[nme].fix)
            M.append(row)
        out.append((n, M, all(fixes), any(fixes)))
    return out


def run_omega(case, drv):
    rng = random.Random(case["seed"])
    k, mon, tags = [], [], []
    case = {**case, "omega": [dict(r) for r in case["omega"]], "sigma": [dict(r) for r in case["sigma"]]}
    for nme in ("omega", "sigma"):
        prevn = None
        for rec in case[nme]:
            if rec["t"] in ("block", "values"):
                prevn = rec["n"]
            elif rec["t"] == "same":
                rec["n_prev"] = prevn if prevn is not None else 1
            else:
                prevn = None
    has_values = any(r["t"] == "values" for nme in ("omega", "sigma") for r in case[nme])
    if has_values:
        drv = None          # BLOCK(n) VALUES(d,o) is not in the Lean model (the code rejects it)
    text = ("$PROBLEM c01\n$INPUT ID TIME DV\n$DATA c01.csv IGNORE=@\n$PRED\nY = THETA(1) + ETA(1) + EPS(1)\n$THETA 1\n"
            + "\n".join(r_orec(r, "OMEGA", rng, bool(case.get("comma"))) for r in case["omega"]) + "\n"
            + "\n".join(r_orec(r, "SIGMA", rng) for r in case["sigma"]) + "\n$ESTIMATION METHOD=1\n")
    refs = {"omega": ref_blocks(case["omega"]), "sigma": ref_blocks(case["sigma"])}
    for nme in ("omega", "sigma"):
        for rec in case[nme]:
            tags.append("omega:" + (rec["t"] if rec["t"] != "block" else
                                    f"block{rec['n']}-" + ("chol" if rec["chol"] else ("sd" if rec["sd"] else "var") + ("corr" if rec["corr"] else ""))))
    has_same_m = any(r["t"] == "same" and (r["m"] or 1) > 1 for nme in ("omega", "sigma") for r in case[nme])
    lean_cov = {}
    if drv is not None:
        for nme in ("omega", "sigma"):
            lean_cov[nme] = drv.ask(["omegacov"] + [w_orec(r) for r in case[nme]])
    try:
        model = read_model_from_string(text)
    except Exception as e:
        en = type(e).__name__
        if en == "ModelSyntaxError" and (refs["omega"] is None or refs["sigma"] is None):
            tags.append("omega-documented-refusal")
            if drv is not None and not any(isinstance(v, list) and v and v[0] == "err" for v in lean_cov.values()):
                k.append(f"code refuses ({e}), the model accepts: {text}")
            return {"k": k, "mon": mon, "tags": tags, "nontrivial": True}
        cls = "omega-values-rejected" if has_values else ("omega-comma-separator-rejected" if (case.get("comma") and en == "UnexpectedToken") else "omega-read-raises")
        mon.append({"cls": cls, "what": f"read_model_from_string raised {en}: {str(e).splitlines()[0][:150]} on\n{text}"})
        return {"k": k, "mon": mon, "tags": tags, "nontrivial": True}
    cstream = model.internals.control_stream
    for nme, rvs in (("omega", model.random_variables.etas), ("sigma", model.random_variables.epsilons)):
        recs = case[nme]
        ref = refs[nme]
        code = code_cov_blocks(model, rvs)
        # ---- K (e): OmegaRecord.parse() per record vs the Lean model
        if drv is not None:
            lp = drv.ask(["omegaparse"] + [w_orec(r) for r in recs])
            crecs = cstream.get_records(nme.upper())
            if len(crecs) != len(recs):
                k.append(f"{nme}: {len(crecs)} records parsed, {len(recs)} written")
            else:
                for ri, (cr, lr) in enumerate(zip(crecs, lp)):
                    cb = cr.parse()
                    if lr[0] != "ok":
                        k.append(f"{nme} record {ri}: model {lr}, code parsed {cb}")
                        continue
                    lb = lr[1:]
                    if len(lb) != len(cb):
                        k.append(f"{nme} record {ri}: model {len(lb)} blocks, code {len(cb)}")
                        continue
                    for (tag, lfix, lsame, linits), (_, cinits, cfix, csame) in zip(lb, cb):
                        if (lsame == "true") != bool(csame):
                            k.append(f"{nme} record {ri}: same flag model {lsame} code {csame}")
                        elif not csame:
                            if (lfix == "true") != bool(cfix) or len(linits) != len(cinits) or \
                                    not all(_close(c, _lean_entry(tag, l)) for c, l in zip(cinits, linits)):
                                k.append(f"{nme} record {ri}: model {tag} fix={lfix} {linits}, code fix={cfix} {list(cinits)}")
            # ---- K (f): covariance blocks after SAME resolution vs the model object
            lc = lean_cov[nme]
            if lc and lc[0] == "err":
                k.append(f"{nme}: model {lc}, code read the records")
            elif len(lc) != len(code):
                k.append(f"{nme}: model has {len(lc)} covariance blocks, model object {len(code)}")
            else:
                for bi, ((tag, ln, lfix, lvals), (cn, cM, call, cany)) in enumerate(zip(lc, code)):
                    cflat = [v for row in cM for v in row]
                    if int(ln) != cn or (lfix == "true") != call or len(lvals) != len(cflat) or \
                            not all(_close(c, _lean_entry(tag, l)) for c, l in zip(cflat, lvals)):
                        k.append(f"{nme} block {bi}: model {tag} n={ln} fix={lfix} {lvals}, model object n={cn} fix={call} {cflat}")
        # ---- monitor: the model object's covariance at the initial estimates vs NONMEM's definition
        if ref is None:
            mon.append({"cls": "omega-refusal-missed", "what": f"{nme}: NM-TRAN refuses these records, the model was read:\n{text}"})
            continue
        if [b[0] for b in ref] != [c[0] for c in code]:
            cls = "omega-same-count-ignored" if has_same_m else "omega-block-structure"
            mon.append({"cls": cls, "what": f"{nme}: block sizes of the model object {[c[0] for c in code]}, NONMEM {[b[0] for b in ref]} for\n{text}"})
            continue
        for bi, ((rn, rM, rfix), (cn, cM, call, cany)) in enumerate(zip(ref, code)):
            if not rfix and not _is_pd(rn, rM):
                tags.append("omega-not-positive-definite-skipped")     # NM-TRAN refuses such a block
                continue
            bad = [(i, j) for i in range(rn) for j in range(i + 1) if not _close(cM[i][j], rM[i][j])]
            if bad:
                i, j = bad[0]
                want = rM[i][j]
                want_s = f"±sqrt({abs(want[1])}) (sign {'-' if want[1] < 0 else '+'})" if isinstance(want, tuple) else f"{want} = {float(want)}"
                mon.append({"cls": "omega-block-values", "what": f"{nme} block {bi} (size {rn}): entry ({i + 1},{j + 1}) of the initial covariance "
                            f"is {cM[i][j]} in the model object, NONMEM defines {want_s}; records:\n{text}"})
                break
            if rfix != call or call != cany:
                mon.append({"cls": "omega-block-fix", "what": f"{nme} block {bi}: FIX {rfix} in the records, parameters fixed all={call} any={cany}\n{text}"})
                break
    return {"k": k, "mon": mon, "tags": tags, "nontrivial": any(r["t"] == "block" and r["n"] >= 2 for nme in ("omega", "sigma") for r in case[nme])}


def shrink_omega(case):
    for nme in ("omega", "sigma"):
        recs = case[nme]
        if len(recs) > 1:
            for i in range(len(recs)):
                rest = recs[:i] + recs[i + 1:]
                if rest and rest[0]["t"] == "same":
                    continue
                c = dict(case)
                c[nme] = rest
                yield c
        for i, r in enumerate(recs):
            if r["t"] == "block" and r["n"] > 1 and all(reps == 1 for _, reps in r["vals"]):
                n = r["n"] - 1
                if any(q["t"] == "same" for q in recs[i + 1:i + 2]):
                    continue
                nr = dict(r)
                nr["n"] = n
                nr["vals"] = r["vals"][:n * (n + 1) // 2]
                c = dict(case)
                c[nme] = recs[:i] + [nr] + recs[i + 1:]
                yield c
            if r["t"] == "block" and r["fix"]:
                nr = dict(r)
                nr["fix"] = False
                c = dict(case)
                c[nme] = recs[:i] + [nr] + recs[i + 1:]
                yield c


# ================================================================ $THETA records, all documented forms

TH_NUM = [("1", "1"), ("0.5", ".5"), ("0.01", "1E-2"), ("10", "1E1"), ("2.5", "2.5"), ("3", "3."), ("0.25", "2.5E-1"), ("7", "7")]


def g_thetas_case(rng, seed):
    items = []
    for _ in range(rng.randint(1, 5)):
        form = rng.choice(["init", "init", "paren-init", "low-init", "low-init-up", "ninf-init", "low-init-inf", "ninf-init-inf",
                           "init-xn", "low-init-up-xn", "equal-bounds"])
        init = rng.choice(TH_NUM)
        fixpos = rng.choice(["none", "none", "none", "inside", "after"])
        if form not in ("paren-init", "init-xn") and fixpos == "inside":
            fixpos = "after"          # FIX inside parentheses with explicit bounds is a documented refusal
        if form.endswith("xn") and fixpos == "after":
            fixpos = "inside" if form == "init-xn" else "none"      # grammar: either xn or FIX after the parenthesis
        if form == "equal-bounds":
            fixpos = "none"
        items.append({"form": form, "init": list(init), "low": rng.choice(["-2", "0", "-0.5", "0.001"]), "up": rng.choice(["20", "100", "1E2", "50.5"]),
                      "n": rng.randint(2, 4), "fixpos": fixpos, "fixkw": rng.choice(KW["fix"]), "sep": rng.choice([",", ", ", " "]),
                      "infkw": rng.choice(["INF", "inf", "1000000"])})
    case = {"kind": "thetas", "items": items, "split": rng.random() < 0.3, "dexp": False, "seed": seed}
    g_theta_comments(case)
    return case


TH_COMMENT_NAMES = ["CL", "V", "TVCL", "TVV", "KA", "fractions", "slope", "baseline", "POP_CL", "theta1", "MAT", "Y", "TIME", "ETA_1", "THETA_2"]


def g_theta_comments(case):
    """Comments of the $THETA items (NM-TRAN ignores them; pharmpy takes parameter names from them) and 0-2 further items in the
    repeated form.  All choices come from a generator derived from the case's own seed, so the other case kinds of a run are the
    ones they were before comments were generated.  A comment is ["name", NAME, tail] (`; NAME tail`), ["num", text] (`; 2.5 text`:
    no identifier directly after the semicolon) or ["empty"] (`;`)."""
    r = random.Random(case["seed"] ^ 0xC01F)
    items = case["items"]
    for _ in range(r.choice([0, 0, 1, 1, 2])):
        form = r.choice(["init-xn", "low-init-up-xn"])
        items.insert(r.randint(0, len(items)), {
            "form": form, "init": list(r.choice(TH_NUM)), "low": r.choice(["-2", "0", "-0.5", "0.001"]), "up": r.choice(["20", "100", "50.5"]),
            "n": r.randint(2, 5), "fixpos": "inside" if (form == "init-xn" and r.random() < 0.3) else "none", "fixkw": r.choice(KW["fix"]),
            "sep": r.choice([",", ", "]), "infkw": "INF"})

    def one():
        q = r.random()
        if q < 0.7:
            return ["name", r.choice(TH_COMMENT_NAMES), r.choice(["", "", " (L/h)", " ; typical value", "=pop value", " 1"])]
        if q < 0.85:
            return ["num", r.choice(["1", "2.5 units", "(fixed) CL", "- CL", "1st"])]
        return ["empty"]
    if r.random() < 0.85:
        for it in items:
            q = r.random()
            it["comments"] = [] if q < 0.35 else [one()] if q < 0.85 else [one() for _ in range(r.randint(2, 3))]
        case["precomment"] = r.random() < 0.2
        if len(items) > 2 and r.random() < 0.3:       # more than two records
            case["breaks"] = sorted(r.sample(range(1, len(items)), r.randint(1, min(3, len(items) - 1))))


def r_theta_comment(c):
    if c[0] == "name":
        return f"; {c[1]}{c[2]}", c[1]
    if c[0] == "num":
        return f"; {c[1]}", None
    return ";", None


def run_thetas(case, drv):
    k, mon, tags = [], [], []
    inf = float("inf")
    parts, want, item_reps, want_of_item = [], [], [], []
    for it in case["items"]:
        v, sp = it["init"]
        f = it["form"]
        fx_in = f" {it['fixkw']}" if it["fixpos"] == "inside" else ""
        fx_af = f" {it['fixkw']}" if it["fixpos"] == "after" else ""
        sep = it["sep"]
        if sep == " " and "inf" in f and it["infkw"] != "1000000":
            sep = ","        # `(0 1 INF)`: the word INF after a blank is lexed with the parenthesis (loud); not generated
        ninf = "-" + it["infkw"] if it["infkw"] != "1000000" else "-1000000"
        lo, up = it["low"], it["up"]
        fixed = it["fixpos"] != "none"
        reps = 1
        if f == "init":
            s, b = f"{sp}{fx_af}", (-inf, inf)
        elif f == "paren-init":
            s, b = f"({sp}{fx_in}){fx_af}", (-inf, inf)
        elif f == "low-init":
            s, b = f"({lo}{sep}{sp}){fx_af}", (float(lo), inf)
        elif f == "low-init-up":
            s, b = f"({lo}{sep}{sp}{sep}{up}){fx_af}", (float(lo), float(up))
        elif f == "ninf-init":
            s, b = f"({ninf}{sep}{sp}){fx_af}", (-inf, inf)
        elif f == "low-init-inf":
            s, b = f"({lo}{sep}{sp}{sep}{it['infkw']}){fx_af}", (float(lo), inf)
        elif f == "ninf-init-inf":
            s, b = f"({ninf}{sep}{sp}{sep}{it['infkw']}){fx_af}", (-inf, inf)
        elif f == "init-xn":
            s, b, reps = f"({sp}{fx_in})x{it['n']}", (-inf, inf), it["n"]
        elif f == "low-init-up-xn":
            s, b, reps = f"({lo}{sep}{sp}{sep}{up})x{it['n']}", (float(lo), float(up)), it["n"]
        elif f == "equal-bounds":
            s, b, fixed = f"({sp}{sep}{sp}{sep}{sp})", (float(Fraction(v)), float(Fraction(v))), True     # implied FIX
        else:
            raise ValueError(f)
        tags.append(f"theta:{f}" + ("+fix" if it["fixpos"] != "none" else ""))
        parts.append(s)
        item_reps.append(reps)
        want_of_item.append((float(Fraction(v)), b[0], b[1], fixed))
        want += [(float(Fraction(v)), b[0], b[1], fixed)] * reps
    comments = [list(it.get("comments", [])) for it in case["items"]]
    mult = list(item_reps)
    if case.get("dexp"):
        parts.append("1D1")
        comments.append([])
        mult.append(1)
        want_of_item.append((10.0, -inf, inf, False))
        want.append((10.0, -inf, inf, False))
    if case.get("breaks"):
        starts = [0] + [b for b in case["breaks"] if 0 < b < len(parts)]
    elif case["split"] and len(parts) > 1:
        starts = [0, len(parts) // 2]
    else:
        starts = [0]
    # records: the items of each record, the text, and what tree_walk() shows of it (theta subtrees / COMMENT tokens, in order)
    recs, th = [], ""
    for ri, a in enumerate(starts):
        b = starts[ri + 1] if ri + 1 < len(starts) else len(parts)
        line, evs, items_w, nl = "$THETA", [], [], False
        if ri == 0 and case.get("precomment"):
            line += " ; initial estimates\n"
            evs.append(["c", "initial"])
            nl = True
        for i in range(a, b):
            # layout: one line per record, except after a comment and (as before) one item per line in the second of two records
            line += ("\n " if (not nl and i > a and ri > 0 and not case.get("breaks")) else " ") + parts[i]
            nl = False
            evs.append(["t", mult[i]])
            items_w.append([i, mult[i]])
            for c in comments[i]:
                txt, nme = r_theta_comment(c)
                line += " " + txt + "\n"
                nl = True
                evs.append(["c", nme] if nme is not None else ["c"])
                tags.append("theta-comment:" + c[0] + (":xn" if mult[i] > 1 else ""))
        th += line + ("" if nl else "\n")
        recs.append((items_w, evs))
    th = th.rstrip("\n")
    tags.append(f"theta-records:{len(recs)}")
    nth = sum(mult)
    ysum = " + ".join(f"THETA({i + 1})" for i in range(nth)) if any(comments) else "THETA(1)"
    text = f"$PROBLEM c01\n$INPUT ID TIME DV\n$DATA c01.csv IGNORE=@\n$PRED\nY = {ysum} + ETA(1) + EPS(1)\n{th}\n$OMEGA 0.1\n$SIGMA 1\n$ESTIMATION METHOD=1\n"
    try:
        model = read_model_from_string(text)
    except Exception as e:
        mon.append({"cls": "theta-record-rejected", "what": f"`{th}` raises {type(e).__name__}: {str(e).splitlines()[0][:120]}"})
        return {"k": k, "mon": mon, "tags": tags, "nontrivial": True}
    rvp = set(model.random_variables.parameter_names)
    got = [(float(p.init), float(p.lower), float(p.upper), bool(p.fix)) for p in model.parameters if p.name not in rvp]
    # ---- K (i): comment_names of every $THETA record and the theta parameters of the model object vs the Lean model
    if drv is not None:
        ans = drv.ask(["thetas"] + [[iw, ev] for iw, ev in recs])
        lean_names = [[None if x == "~" else x for x in l] for l in ans[0][1:]]
        code_names = [list(r.comment_names) for r in model.internals.control_stream.get_records("THETA")]
        if lean_names != code_names:
            k.append(f"comment_names: model {lean_names}, code {code_names} for `{th}`")
        lean_params = ans[1][1]
        if lean_params == "err":
            k.append(f"theta parameters: model raises IndexError, code reads {len(got)} thetas for `{th}`")
        else:
            lean_got = [want_of_item[int(i)] for i in lean_params]
            if lean_got != got and not case.get("dexp"):
                k.append(f"theta parameters: model {lean_got}, code {got} for `{th}`")
    if got != want:
        if len(got) != len(want) and not case.get("dexp"):
            cls = "theta-count"
        else:
            cls = "theta-fortran-d-exponent" if (case.get("dexp") and got[:-1] == want[:-1]) else "theta-values"
        mon.append({"cls": cls, "what": f"`{th}` declares {len(want)} THETAs, the model object has {len(got)}: read as {got}, documented meaning {want}"})
    return {"k": k, "mon": mon, "tags": tags, "nontrivial": len(want) > 1}


# ================================================================ $DES models (ADVAN6/8/9/13): same differential equations
# (added after a seeded change in to_compartmental_system — accumulation of several terms of one flow — was not caught)

COMP_NAMES = ["CENTRAL", "PERIPH", "DEPOT", "TISSUE", "EFFECT", "GUT", "LIVER", "ZED", "ALPHA"]
PK_SYMS = ["K10", "K12", "K21", "KA", "KX", "VM", "KM", "CL", "V1", "Q", "R0", "KT"]


def _s(x):
    return ["sym", x]


def _A(i):
    return ["par", "A", i]


def _mul(*xs):
    out = xs[0]
    for x in xs[1:]:
        out = ["mul", out, x]
    return out


def g_des_case(rng, seed):
    n = rng.choice([2, 2, 3, 3, 4])
    names = rng.sample(COMP_NAMES, n)
    syms = list(PK_SYMS)
    rng.shuffle(syms)
    nth = 6
    pk = []
    for i, sname in enumerate(PK_SYMS):
        th = ["par", "THETA", (i % nth) + 1]
        r = rng.random()
        if r < 0.15:
            e = _mul(th, ["fn", "EXP", ["par", "ETA", 1]])
        elif r < 0.3:
            e = ["div", th, ["par", "THETA", ((i + 2) % nth) + 1]]
        elif r < 0.4:
            e = ["add", th, ["num", str(rng.randint(1, 3)), None]]
        else:
            e = th
        pk.append(["=", sname, e])
    # DES-local assignments
    local = []
    if rng.random() < 0.5:
        local.append(["=", "KEL", ["div", _s("CL"), _s("V1")]])
    if rng.random() < 0.35:
        local.append(["=", "C1", ["div", _A(1), _s("V1")]])
    lsyms = [st[1] for st in local]

    def rate_sym():
        return _s(rng.choice([x for x in PK_SYMS if x not in ("V1", "KM", "R0")] + [x for x in lsyms if x == "KEL"]))

    def term(src, dst):
        """one additive term of the flow src -> dst (dst None = elimination); returns an expression."""
        r = rng.random()
        a = _A(src)
        if r < 0.40:
            return _mul(rate_sym(), a)
        if r < 0.52:
            return _mul(["div", _s("Q"), _s("V1")], a)
        if r < 0.70:
            return ["div", _mul(_s("VM"), a), ["add", _s("KM"), a]]
        if r < 0.80:
            return _mul(["num", str(rng.randint(2, 3)), None], rate_sym(), a)
        if r < 0.92:
            return _mul(["add", rate_sym(), rate_sym()], a)                      # (K12 + KX)*A(i): expands into two terms
        if dst is not None and r < 0.97:
            return _mul(rate_sym(), a, _A(dst))                                    # amount product (second order)
        return _mul(rate_sym(), ["pow", a, ["num", "2", None]])

    eqs = [[] for _ in range(n)]      # signed terms: (sign, expr)
    pairs = [(i, j) for i in range(1, n + 1) for j in range(1, n + 1) if i != j]
    rng.shuffle(pairs)
    for (i, j) in pairs[:rng.randint(1, min(len(pairs), n + 1))]:
        for _ in range(rng.choice([1, 1, 2, 2, 3])):
            t = term(i, j)
            eqs[i - 1].append((-1, t))
            eqs[j - 1].append((+1, t))
    for i in range(1, n + 1):
        if rng.random() < 0.6:
            for _ in range(rng.choice([1, 1, 2])):
                eqs[i - 1].append((-1, term(i, None)))
        if rng.random() < 0.2:
            eqs[i - 1].append((+1, rng.choice([_s("R0"), _mul(_s("KT"), _s("R0"))])))
        if "C1" in lsyms and rng.random() < 0.3:
            eqs[i - 1].append((-1, _mul(_s("CL"), _s("C1"))))
    des = []
    for i in range(n):
        terms = list(eqs[i])
        if not terms:
            terms = [(-1, _mul(_s("K10"), _A(i + 1)))]
        rng.shuffle(terms)
        e = None
        for sg, t in terms:
            if e is None:
                e = t if sg > 0 else ["neg", t]
            else:
                e = ["add" if sg > 0 else "sub", e, t]
        des.append(["=", f"DADT({i + 1})", e])
    obs = rng.randint(1, n)
    err = [["=", "IPRED", ["div", _A(obs), _s("V1")]],
           ["=", "W", ["add", ["mul", _A(rng.randint(1, n)), ["num", "1/4", "0.25"]], ["num", "1", None]]],
           ["=", "Y", ["add", _s("IPRED"), _mul(_s("W"), ["par", "EPS", 1])]]]
    return {"kind": "des", "advan": rng.choice(["ADVAN6", "ADVAN13", "ADVAN8", "ADVAN9"]), "names": names, "defdose": rng.randint(1, n),
            "defobs": rng.choice([None, rng.randint(1, n)]), "pk": pk, "local": local, "des": des, "err": err, "seed": seed}


def _to_sympy(e, amt):
    """generated expression -> sympy over plain symbols; A(i) -> amt[i]."""
    k = e[0]
    if k == "num":
        return sympy.Rational(e[1])
    if k == "sym":
        return sympy.Symbol(e[1], positive=True)
    if k == "par":
        return amt[e[2]] if e[1] == "A" else sympy.Symbol(f"{e[1]}_{e[2]}", positive=True)
    if k == "neg":
        return -_to_sympy(e[1], amt)
    if k == "fn":
        return {"EXP": sympy.exp, "LOG": sympy.log, "SQRT": sympy.sqrt, "ABS": sympy.Abs}[e[1]](_to_sympy(e[2], amt))
    a, b = _to_sympy(e[1], amt), _to_sympy(e[2], amt)
    return {"add": a + b, "sub": a - b, "mul": a * b, "div": a / b, "pow": a ** b}[k]


def des_terms(case):
    """the expanded equations as the Lean model takes them: per equation a list of (mono id, coef, amounts),
    plus the sympy monomials by id (for numeric evaluation)."""
    n = len(case["names"])
    amt = {i: sympy.Symbol(f"A__{i}", positive=True) for i in range(1, n + 1)}
    monos, ids = [], {}
    prog = []
    for st in case["des"]:
        ex = sympy.expand(_to_sympy(st[2], amt))
        eq = []
        for t in sympy.Add.make_args(ex):
            if t == 0:
                continue
            c, rest = t.as_coeff_Mul()
            key = sympy.srepr(rest)
            if key not in ids:
                ids[key] = len(monos)
                monos.append(rest)
            eq.append((ids[key], sympy.Rational(c), sorted(i - 1 for i in amt if rest.has(amt[i]))))
        prog.append(eq)
    return prog, monos, amt


def des_unsafe_py(prog):
    """DesSafe re-implemented on the term lists (mirrors PharmpyModel/C01/Des.lean)."""
    n = len(prog)
    out = []
    for i, eq in enumerate(prog):
        amounts = []
        for _, _, am in eq:
            for a in am:
                if a not in amounts:
                    amounts.append(a)
        for a in amounts:
            for (m, c, am) in eq:
                if a not in am or c <= 0:
                    continue
                has_neg = lambda j: any(m2 == m and c2 == -c for (m2, c2, _) in prog[j])
                cands = [j for j in am if has_neg(j)] if len(am) >= 2 else [j for j in range(n) if has_neg(j)]
                if not cands:
                    continue
                f = cands[-1]
                if not (f == a and f != i and a < n):
                    cls = "multi-amount" if len(am) >= 2 else "foreign-equation"
                    if cls not in out:
                        out.append(cls)
    return out


def run_des(case, drv):
    rng = random.Random(case["seed"])
    k, mon, tags = [], [], []
    names = case["names"]
    n = len(names)
    comps = []
    for i, nme in enumerate(names, 1):
        opts = ([" DEFDOSE"] if i == case["defdose"] else []) + ([" DEFOBS"] if i == case["defobs"] else [])
        comps.append(f"COMP=({nme}{''.join(opts)})")
    text = ("$PROBLEM c01\n$INPUT ID TIME AMT DV X W\n$DATA c01.csv IGNORE=@\n"
            f"$SUBROUTINES {case['advan']} TOL=6\n$MODEL " + " ".join(comps) + "\n$PK\n" + "\n".join(r_stmts(case["pk"], rng)) + "\n$DES\n"
            + "\n".join(r_stmts(case["local"] + case["des"], rng)) + "\n$ERROR\n" + "\n".join(r_stmts(case["err"], rng)) + "\n"
            "$THETA (0,1) (0,10) (0,2) (0,20) (0,5) (0,3)\n$OMEGA 0.1\n$SIGMA 0.1\n$ESTIMATION METHOD=1 INTER\n")
    prog, monos, amt = des_terms(case)
    unsafe = des_unsafe_py(prog)
    tags += [f"des:n={n}", "des:" + ("safe" if not unsafe else "+".join(unsafe)), f"des:{case['advan']}"]
    if any(len([1 for (m, c, am) in eq if c > 0 and len(am) == 1]) >= 2 for eq in prog):
        tags.append("des:several-positive-terms-in-an-equation")
    try:
        model = read_model_from_string(text)
    except Exception as e:
        mon.append({"cls": "des-read-raises", "what": f"read_model_from_string raised {type(e).__name__}: {str(e)[:200]} on\n{text}"})
        return {"k": k, "mon": mon, "tags": tags, "nontrivial": True}
    cs = model.statements.ode_system
    if cs is None:
        mon.append({"cls": "des-no-ode-system", "what": f"no ODE system in the model read from\n{text}"})
        return {"k": k, "mon": mon, "tags": tags, "nontrivial": True}
    thetas = [p for p in model.parameters.names if p.startswith("THETA")]
    ren = {f"THETA({i + 1})": nme for i, nme in enumerate(thetas)}
    ren.update({f"ETA({i + 1})": nme for i, nme in enumerate(model.random_variables.etas.names)})
    ren.update({f"EPS({i + 1})": nme for i, nme in enumerate(model.random_variables.epsilons.names)})
    # ---- K (g): Lean translateDes vs the flows / outputs / inputs of the model object
    if drv is not None:
        wire = [[[m, _wfrac(c), am] for (m, c, am) in eq] for eq in prog]
        ans = drv.ask(["des", wire])
        lflows, lrest, lsafe = ans[0][1:], ans[1][1:], ans[2]
        if lsafe[1:] != unsafe or (lsafe[0] == "safe") != (not unsafe):
            k.append(f"des: Lean desUnsafe {lsafe} vs harness {unsafe}")
        cobj = {nme: cs.find_compartment(nme) for nme in names}
        if any(c is None for c in cobj.values()):
            k.append(f"des: compartments {cs.compartment_names} vs $MODEL {names}")
        else:
            for trial in range(2):
                base = {str(s_): sympy.Rational(rng.randint(1, 30), rng.randint(1, 7)) for mm in monos for s_ in mm.free_symbols}
                avals = {i: base[f"A__{i}"] if f"A__{i}" in base else sympy.Rational(rng.randint(1, 30), rng.randint(1, 7)) for i in range(1, n + 1)}
                for i in range(1, n + 1):
                    base[f"A__{i}"] = avals[i]
                mv = [mm.xreplace({s_: base[str(s_)] for s_ in mm.free_symbols}) for mm in monos]
                env = {kk: v for kk, v in base.items() if not kk.startswith("A__")}
                env.update({f"A_{names[i - 1]}(t)": avals[i] for i in range(1, n + 1)})
                env["t"] = sympy.Integer(1)
                want = {}
                for (f, t_, m, c, d) in lflows:
                    key = (int(f), int(t_))
                    want[key] = want.get(key, 0) + Fraction(c) * mv[int(m)] / avals[int(d) + 1]
                for i in range(n):
                    o = sum((-Fraction(c) * mv[int(m)] / avals[i + 1] for (m, c) in lrest[i] if Fraction(c) < 0), sympy.Integer(0))
                    inp = sum((Fraction(c) * mv[int(m)] for (m, c) in lrest[i] if Fraction(c) > 0), sympy.Integer(0))
                    want[(i, "out")] = o
                    want[(i, "in")] = inp
                bad = None
                for i in range(n):
                    for j in list(range(n)) + ["out", "in"]:
                        if j == i:
                            continue
                        if j == "in":
                            ce = cobj[names[i]].input
                        else:
                            ce = cs.get_flow(cobj[names[i]], output if j == "out" else cobj[names[j]])
                        try:
                            cv = ev_sympy(ce._sympy_(), env)
                        except Undef:
                            continue
                        wv = sympy.nsimplify(want.get((i, j), 0)) if not isinstance(want.get((i, j), 0), sympy.Basic) else want.get((i, j), 0)
                        if not same(sympy.sympify(wv), cv):
                            bad = f"des: flow {names[i]}->{j if isinstance(j, str) else names[j]}: model object {ce} = {cv}, Lean model {wv} at {env}"
                            break
                    if bad:
                        break
                if bad:
                    k.append(bad)
                    break
    # ---- monitor: the equations of the model object vs the literal DADT values of the text
    order = {f"A_{nme}(t)": i for i, nme in enumerate(names, 1)}
    for trial in range(4):
        env_nm = {nme: rand_value(rng, nme) for nme in ["X", "W", "TIME", "AMT", "THETA(1)", "THETA(2)", "THETA(3)", "THETA(4)", "THETA(5)", "THETA(6)", "ETA(1)", "EPS(1)"]}
        for q in range(1, 7):
            env_nm[f"THETA({q})"] = sympy.Rational(rng.randint(1, 12), rng.choice([1, 2, 3]))
        for i in range(1, n + 1):
            env_nm[f"A({i})"] = sympy.Rational(rng.randint(1, 40), rng.choice([1, 2, 3, 5]))
        env_ir = {ren.get(nme, nme): v for nme, v in env_nm.items() if not nme.startswith("A(")}
        for i, nme in enumerate(names, 1):
            env_ir[f"A_{nme}(t)"] = env_nm[f"A({i})"]
        env_ir["t"] = env_nm["TIME"]
        nm_exec(case["pk"], env_nm)
        nm_exec(case["local"] + case["des"], env_nm)
        for s in model.statements.before_odes:
            try:
                env_ir[str(s.symbol)] = ev_sympy(s.expression._sympy_(), env_ir)
            except Undef:
                env_ir[str(s.symbol)] = None
        bad = None
        seen_eq = set()
        for eq in cs.eqs:
            lhs = eq.lhs._sympy_()
            fn = str(lhs.args[0])
            if fn not in order:
                bad = f"equation for unknown amount {fn}"
                break
            seen_eq.add(order[fn])
            want = env_nm.get(f"DADT({order[fn]})")
            if want is None:
                continue
            try:
                got = ev_sympy(eq.rhs._sympy_(), env_ir)
            except Undef:
                continue
            if not same(want, got):
                shown = {q: str(v) for q, v in env_nm.items() if q.startswith(("THETA", "ETA", "A("))}
                bad = (f"DADT({order[fn]}) [{fn}]: NM-TRAN $DES gives {want}, the equations of the model object give {got} "
                       f"(`{eq.lhs} = {eq.rhs}`) at {shown}")
                break
        if bad is None and seen_eq != set(range(1, n + 1)):
            bad = f"the model object has equations for compartments {sorted(seen_eq)} of {n}"
        if bad:
            cls = {"multi-amount": "des-amount-product-flow", "foreign-equation": "des-term-matched-in-foreign-equation"}.get(unsafe[0], "des-equations-differ") if unsafe else "des-equations-differ"
            mon.append({"cls": cls, "what": bad + f"\n{text}"})
            break
        # $ERROR: A(i) must be the amount of compartment i of $MODEL
        env_nm["F"] = env_nm[f"A({case['defobs'] or _default_obs(names)})"]
        nm_exec(case["err"], env_nm)
        for s in model.statements.after_odes:
            try:
                env_ir[str(s.symbol)] = ev_sympy(s.expression._sympy_(), env_ir)
            except Undef:
                env_ir[str(s.symbol)] = None
        for x in ("F", "IPRED", "W", "Y"):
            vn, vi = env_nm.get(x), env_ir.get(x)
            if vn is not None and (vi is None or not same(vn, vi)):
                mon.append({"cls": "des-error-amounts", "what": f"$ERROR: NM-TRAN has {x} = {vn}, the model object {x} = {vi} at A = "
                            f"{[str(env_nm[f'A({i})']) for i in range(1, n + 1)]}\n{text}"})
                bad = True
                break
        if bad:
            break
    return {"k": k, "mon": mon, "tags": tags, "nontrivial": True}


def _default_obs(names):
    return names.index("CENTRAL") + 1 if "CENTRAL" in names else 1


def _wfrac(c):
    c = sympy.Rational(c)
    return str(c.p) if c.q == 1 else f"{c.p}/{c.q}"


def shrink_des(case):
    des = case["des"]
    for i, st in enumerate(des):
        e = st[2]
        # drop one top-level additive term
        def drops(x):
            if x[0] in ("add", "sub"):
                yield x[1]
                if x[0] == "add":
                    yield x[2]
                else:
                    yield ["neg", x[2]]
                for y in drops(x[1]):
                    yield [x[0], y, x[2]]
        for cand in drops(e):
            c = dict(case)
            c["des"] = des[:i] + [[st[0], st[1], cand]] + des[i + 1:]
            yield c
    if case["local"]:
        c = dict(case)
        c["local"] = []
        uses = lambda x: isinstance(x, list) and (x[:2] in (["sym", "KEL"], ["sym", "C1"]) or any(uses(y) for y in x))
        if not uses(case["des"]):
            yield c


# ================================================================ general linear models (ADVAN5 / ADVAN7): Kij rates, A(i) in $ERROR

def g_linear_case(rng, seed):
    n = rng.choice([2, 3, 3, 4])
    names = rng.sample(COMP_NAMES, n)
    pairs = [(i, j) for i in range(1, n + 1) for j in range(1, n + 1) if i != j]
    rng.shuffle(pairs)
    flows = sorted(pairs[:rng.randint(n - 1, min(len(pairs), n + 2))])
    outs = sorted(rng.sample(range(1, n + 1), rng.randint(1, n)))
    kt = rng.random() < 0.3
    # ordinary $PK variables whose names are adversarial to the name-based recognisers of the reader:
    # a reserved name as proper prefix / suffix / infix; placed before or after the genuine definitions
    genuine = [(f"K{i}T{j}" if kt else f"K{i}{j}") for (i, j) in flows] + [(f"K{i}T0" if kt else f"K{i}0") for i in outs]
    absent = [(i, j) for (i, j) in pairs if (i, j) not in flows] + [(i, 0) for i in range(1, n + 1) if i not in outs]
    pool = []
    for g in genuine:
        pool += [g + "X", g + "HL", "X" + g, g + "TOT", "T" + g]
    for (i, j) in absent[:3]:
        pool += [f"K{i}{j}D", f"K{i}T{j}X"]
    dose, obs = rng.randint(1, n), rng.choice([None, rng.randint(1, n)])
    for q in range(1, n + 1):
        pool += [f"S{q}A", f"F{q}B", f"ALAG{q}X", f"R{q}T", f"D{q}X", f"XS{q}", f"XF{q}"]
    pool += ["KA1", "KTR", "THETA1", "A_0X", "A1", "SC1", "TK12"]
    decoys = [[nm, rng.choice(["before", "after"])] for nm in rng.sample(sorted(set(pool)), rng.randint(0, 5))]
    return {"kind": "linear", "advan": rng.choice(["ADVAN5", "ADVAN7"]), "names": names, "defdose": dose,
            "defobs": obs, "flows": [list(f) for f in flows], "outs": outs,
            "kt": kt, "obs": [rng.randint(1, n), rng.randint(1, n)], "decoys": decoys, "seed": seed}


def Rates_like(nm):
    """does the name have a rate-constant name as a proper prefix?"""
    import re
    m = re.match(r"K\d+(T\d+)?", nm)
    return bool(m) and m.end() < len(nm)


def run_linear(case, drv):
    rng = random.Random(case["seed"])
    k, mon, tags = [], [], [f"linear:{case['advan']}", f"linear:n={len(case['names'])}"]
    names = case["names"]
    n = len(names)
    comps = []
    for i, nme in enumerate(names, 1):
        opts = ([" DEFDOSE"] if i == case["defdose"] else []) + ([" DEFOBS"] if i == case["defobs"] else [])
        comps.append(f"COMP=({nme}{''.join(opts)})")
    rates = {}
    for q, (i, j) in enumerate(case["flows"]):
        rates[(i, j)] = f"K{i}T{j}" if case["kt"] else f"K{i}{j}"
    for i in case["outs"]:
        rates[(i, 0)] = f"K{i}T0" if case["kt"] else f"K{i}0"
    pk_lines = [f"{nm} = THETA({(q % 4) + 1})*{q + 2}" for q, nm in enumerate(rates.values())]
    decoys = case.get("decoys", [])
    before = [f"{nm} = THETA({(q % 4) + 1})*{q + 11}" for q, (nm, pos) in enumerate(decoys) if pos == "before"]
    after = [f"{nm} = THETA({(q % 4) + 1})*{q + 17}" for q, (nm, pos) in enumerate(decoys) if pos == "after"]
    pk = "\n".join(before + pk_lines + after)
    for nm, pos in decoys:
        tags.append("decoy:" + ("rate-prefix" if Rates_like(nm) else "other") + ":" + pos)
    o1, o2 = case["obs"]
    text = ("$PROBLEM c01\n$INPUT ID TIME AMT DV\n$DATA c01.csv IGNORE=@\n"
            f"$SUBROUTINES {case['advan']} TRANS1\n$MODEL " + " ".join(comps) + f"\n$PK\n{pk}\nV1 = THETA(1)\n$ERROR\nIPRED = A({o1})/V1\n"
            f"Y = IPRED + A({o2})*EPS(1)\n$THETA (0,1) (0,10) (0,2) (0,20)\n$OMEGA 0.1\n$SIGMA 0.1\n$ESTIMATION METHOD=1\n")
    try:
        model = read_model_from_string(text)
    except Exception as e:
        mon.append({"cls": "linear-read-raises", "what": f"read_model_from_string raised {type(e).__name__}: {str(e)[:200]} on\n{text}"})
        return {"k": k, "mon": mon, "tags": tags, "nontrivial": True}
    cs = model.statements.ode_system
    order = {f"A_{nme}(t)": i for i, nme in enumerate(names, 1)}
    # ---- K (h): _find_rates vs the Lean exact-match recogniser
    if drv is not None:
        from pharmpy.model.external.nonmem.advan import _find_rates
        cstream = model.internals.control_stream
        pknames = [str(st.symbol) for st in cstream.get_records("PK")[0].statements]
        try:
            code_rates = [[str(f), str(t_), str(sym)] for f, t_, sym in _find_rates(cstream, n + 1)]
        except Exception as e:
            code_rates = ["err", "raises"]
        lean_rates = drv.ask(["findrates", n + 1, pknames])
        if lean_rates != code_rates:
            k.append(f"_find_rates: model {lean_rates}, code {code_rates} for $PK names {pknames}")
    for trial in range(3):
        th = {q: sympy.Rational(rng.randint(1, 12), rng.choice([1, 2, 3])) for q in range(1, 5)}
        A = {i: sympy.Rational(rng.randint(1, 40), rng.choice([1, 2, 3, 5])) for i in range(1, n + 1)}
        eps = sympy.Rational(rng.randint(-4, 4), 2)
        kv = {key: th[(q % 4) + 1] * (q + 2) for q, key in enumerate(rates)}
        dadt = {i: sum((kv[(j, i2)] * A[j] for (j, i2) in kv if i2 == i), sympy.Integer(0))
                - sum((kv[(i1, j)] * A[i] for (i1, j) in kv if i1 == i), sympy.Integer(0)) for i in range(1, n + 1)}
        env = {nme: th[i + 1] for i, nme in enumerate([p for p in model.parameters.names if p.startswith("THETA")])}
        env.update({f"A_{nme}(t)": A[i] for i, nme in enumerate(names, 1)})
        env[model.random_variables.epsilons.names[0]] = eps
        env["t"] = sympy.Integer(1)
        for s in model.statements.before_odes:
            env[str(s.symbol)] = ev_sympy(s.expression._sympy_(), env)
        for eq in cs.eqs:
            fn = str(eq.lhs._sympy_().args[0])
            got = ev_sympy(eq.rhs._sympy_(), env)
            if fn not in order or not same(dadt[order[fn]], got):
                mon.append({"cls": "linear-equations-differ", "what": f"{fn}: general linear model gives {dadt.get(order.get(fn))}, the model object "
                            f"`{eq.lhs} = {eq.rhs}` gives {got}\n{text}"})
                return {"k": k, "mon": mon, "tags": tags, "nontrivial": True}
        for s in model.statements.after_odes:
            env[str(s.symbol)] = ev_sympy(s.expression._sympy_(), env)
        want_ipred = A[o1] / th[1]
        want_y = want_ipred + A[o2] * eps
        if not same(env["IPRED"], want_ipred) or not same(env["Y"], want_y):
            reordered = [order[str(a)] for a in cs.amounts] != list(range(1, n + 1))
            cls = "error-amount-index-reordered" if reordered else "linear-error-amounts"
            mon.append({"cls": cls, "what": f"$ERROR `IPRED = A({o1})/V1`, `Y = IPRED + A({o2})*EPS(1)`: compartments of $MODEL are {names}; the model "
                        f"object has {[str(s.symbol) + ' = ' + str(s.expression) for s in model.statements.after_odes]} "
                        f"(amounts ordered {[str(a) for a in cs.amounts]})\n{text}"})
            break
    dflt_obs = case["defobs"] or _default_obs(names)
    fl = [s for s in model.statements.after_odes if str(s.symbol) == "F"]
    if not fl or str(fl[0].expression) != f"A_{names[dflt_obs - 1]}(t)":
        mon.append({"cls": "linear-default-observation", "what": f"F = {fl[0].expression if fl else None}, default observation compartment is {names[dflt_obs - 1]}\n{text}"})
    odd = [(c, str(cs.find_compartment(c).lag_time), str(cs.find_compartment(c).bioavailability)) for c in names
           if str(cs.find_compartment(c).lag_time) != "0" or str(cs.find_compartment(c).bioavailability) != "1"]
    if odd:
        mon.append({"cls": "linear-lag-bioavailability", "what": f"$PK defines no ALAGn / Fn, the model object has (compartment, lag, F) {odd}\n{text}"})
    dosed = [c for c in names if len(cs.find_compartment(c).doses) > 0]
    if dosed != [names[case["defdose"] - 1]]:
        mon.append({"cls": "linear-default-dose", "what": f"dosed compartments {dosed}, DEFDOSE is {names[case['defdose'] - 1]}\n{text}"})
    return {"k": k, "mon": mon, "tags": tags, "nontrivial": True}
