"""C19 — Ranking, selection criteria and result statistics follow their definitions.

K   : Lean model (PharmpyModel/C19/Model.lean, Stats.lean) vs the real pharmpy code:
      rank_models (whole DataFrame), is_strictness_fulfilled, get_rankval, calculate_aic/bic,
      _categorize_parameters, lrt.cutoff/test/best_of_many, create_results' best-model rule,
      bootstrap / cdd / shrinkage statistics.
Mon : the property statement evaluated on the real code with an independent plain-Python
      reference (documented strictness semantics, documented criterion formulas, competition
      ranks on the criterion, chi-square cut-offs from scipy, numpy formulas for statistics).
"""
from __future__ import annotations

import math
import random
from fractions import Fraction

from harness.corr import c19_util as U

ID = "C19"
DRIVER = "drv_c19"
LEAN_TARGETS = ["PharmpyProofs.C19.Properties", "PharmpyProofs.C19.PercentileProperties", "drv_c19"]
PROPERTIES = ["PharmpyProofs/C19/Properties.lean", "PharmpyProofs/C19/PercentileProperties.lean"]
LEAN_SOURCES = ["PharmpyModel/C19/*.lean", "PharmpyProofs/C19/*.lean", "Drivers/C19.lean"]
TIME_LIMIT = {"quick": 900, "thorough": 3000}
CASE_CPU_LIMIT = 60
RULE = ("kind=rank: 0-8 candidates + base; dummy models (any parameter count, rank types ofv/lrt) or models derived from "
        "the pheno example (17 variants with differing fixed/random/omega/sigma counts and two datasets; rank types "
        "ofv/lrt/aic/bic incl. all BIC variants); OFVs are multiples of 1/8 drawn from a small pool (ties frequent) or "
        "NaN; minimisation flags, termination causes, sigdigs (incl. NaN), warnings, RSE / gradient / estimate vectors "
        "(NaN, zeros, near-bound values); strictness strings rendered from random ASTs of the documented grammar "
        "(names, name-op-number, number-op-name, and/or/not, parentheses, random case/spacing) or ''; cut-off none / "
        "number / (p_forward, p_backward) pair; penalties none or multiples of 1/4; parent maps (random earlier model "
        "or base); for real models sharing a data set also tools.common.create_results (final model), with the base model made "
        "ineligible (NaN OFV / failing strictness) in 12 % of the cases. kind=lrt: cutoff/test/p_value/best_of_many on dummy models. kind=crit: calculate_aic/bic and "
        "_categorize_parameters on every pool model. kind=stats: bootstrap / cdd / shrinkage statistics on <= 50 "
        "replicate vectors of short decimals (bootstrap: in ~42 % of the cases with faults in single replicates - failed replicates "
        "with NaN estimates and NaN OFV, single missing estimates, missing OFVs - and in 40 % with a dOFV step whose results are "
        "partially None / NaN; parameter table and OFV table are both checked), and delta-method standard errors of random expressions (+ - * / ^ sqrt log exp "
        "over 1-4 of 2-6 parameters) with exact covariance S(LL^T+D)S; parameter labels are pheno-style, NONMEM-style "
        "(THETA(1), OMEGA(1,1)) or generic names in model order or an arbitrary permutation (lexically sorted only by chance), "
        "and the label order of the individual inputs (replicate Series, original estimates, base estimate, covariance "
        "index vs columns, eta columns, individual matrices) is permuted independently in a fraction of the cases. non-trivial = at least 2 models with non-NaN criterion (rank), any (other "
        "kinds); distinct = distinct case JSON")
TRUSTED = [
    "Lean 4.33 kernel; axioms propext, Quot.sound, Classical.choice only (audited per theorem each run)",
    "hand-written model PharmpyModel/C19/{Model,Stats}.lean tied to tools/run.py, modeling/lrt.py, modeling/results.py, "
    "tools/bootstrap|cdd results by the correspondence run of this invocation",
    "scipy chi2.isf/sf and math.log are data to the model (values looked up by the harness and passed to the driver); "
    "theorems quantify over every table",
    "harness/corr/c19.py + c19_util.py (generator, rendering of strictness ASTs to strings, extraction of parameter "
    "classes / counts / visited-expression symbol sets from pharmpy models, canonicalisation)",
    "pandas DataFrame.sort_values(na_position='last'), Series.idxmin, numpy mean/var/quantile/det/inv numerics",
]
ASSUMPTIONS = [
    "model names are pairwise distinct (rank_models keys its dictionaries by name)",
    "OFVs, penalties and plain cut-offs are dyadic rationals, so float arithmetic on them is exact; values involving "
    "log() are compared to 1e-9 relative, statistics after rounding to 10 significant digits",
    "order of rows with equal sort key is not compared (pandas quicksort is not stable)",
]


def budget(tier):
    return int(__import__("os").environ.get("VERIF_BUDGET", 0)) or {"quick": 2400, "thorough": 30000}[tier]


gen_cases = U.gen_cases
corpus_cases = U.corpus_cases
shrink = U.shrink
worker_init = U.worker_init
run_case = U.run_case
