"""C03 — Control streams round-trip losslessly; edits touch only what changed.

K   : Lean model (PharmpyModel/C03/Model.lean) vs the real code, piece for piece:
      re.split record split, split_raw_record_name, get_canonical_record_name,
      _tokenize_ignored_characters, with_ignored_tokens on lark's own trees (kept tokens
      with (start,end)), and the record operations of NMTranControlStream.  The driver also
      evaluates the decidable `Covering` hypothesis of the theorems on every lark tree.
Mon : the property statement on the real code: str(NMTranParser().parse(T)) == T (whole
      text and record by record), frame of insert/replace/remove on the parsed stream,
      code(update_source(read(T))) == T, and the single-edit frame (theta / omega / sigma
      initial estimate, appended statement); an option appended to an option record
      (OptionRecord.append_option): comments and other records preserved, option read back.
"""
from __future__ import annotations

import glob
import os
import random
import re
import warnings

from . import c03_gen as G
from .c03_util import attr_leaves, dec, dec_leaves, enc, lark_leaves, lark_tree_to_wire

ID = "C03"
DRIVER = "drv_c03"
LEAN_TARGETS = ["PharmpyProofs.C03.Properties", "PharmpyProofs.C03.RecordProperties", "PharmpyProofs.C03.OptionProperties", "drv_c03"]
PROPERTIES = ["PharmpyProofs/C03/Properties.lean", "PharmpyProofs/C03/RecordProperties.lean", "PharmpyProofs/C03/OptionProperties.lean"]
LEAN_SOURCES = ["PharmpyModel/C03/*.lean", "PharmpyProofs/C03/*.lean", "Drivers/C03.lean", "PharmpyModel/C02/Record.lean", "PharmpyModel/C02/Lcs.lean",
                "PharmpyProofs/C02/RecordLemmas.lean", "PharmpyProofs/C02/RecordProperties.lean", "PharmpyProofs/C02/Lemmas.lean", "PharmpyProofs/C02/Properties.lean"]
TIME_LIMIT = {"quick": 900, "thorough": 3000}
CASE_CPU_LIMIT = 60
RULE = ("kind=text: control streams generated record by record from the record grammars (PROBLEM, INPUT, DATA, SUBROUTINES, "
        "ABBREVIATED, MODEL, PK/PRED/ERROR/DES code with IF blocks, DO WHILE, verbatim lines, continuations, THETA, OMEGA/SIGMA incl. "
        "BLOCK/SAME/VALUES, ESTIMATION, COVARIANCE, TABLE, SIMULATION, SIZES, ETAS, unknown records) with random glue (blanks, tabs, NUL, "
        "newlines, comments), in NM-TRAN order or as a random bag, or one of the 92 shipped .mod files, each optionally passed through "
        "1-5 lexical mutations (CR LF, tabs/NUL, comments, blank lines, 3-letter abbreviations, case, indentation of `$`, continuations, "
        "inserted/deleted characters, unknown/duplicated records, text before the first record, final newline); every accepted text is "
        "checked whole, record by record, tree by tree, plus seeded record operations. kind=optedit: a stream with one option record "
        "(INPUT, SUBROUTINES, TABLE, DATA, ESTIMATION, MODEL, SIZES, COVARIANCE, ETAS) built line by line whose end is drawn from layout classes "
        "(option last / end-of-line comment + line break / comment at end of file / comment and blank lines after the last option / trailing "
        "blanks / CR LF), or any generated / shipped text, and one option of the kind pharmpy itself appends, appended with append_option to one "
        "of its option records. kind=model: a shipped model or a generated valid "
        "model, optionally layout-mutated, read with parse_model: no-op update_source and three single-component edits. kind=names / "
        "kind=ignored: exhaustive abbreviation table and random ignorable strings. non-trivial = text accepted by the parser with at "
        "least 2 records (text), model read and regenerated (model); distinct = distinct case JSON")
TRUSTED = [
    "Lean 4.33 kernel; axioms propext, Quot.sound, Classical.choice only (audited per theorem each run)",
    "hand-written model PharmpyModel/C03/Model.lean tied to nmtran_parser.py, records/factory.py, internals/parse/ignored.py by the correspondence run of this invocation",
    "lark 1.3.1: a propagate_positions parse with %ignore yields kept tokens whose (start_pos,end_pos) are ordered, in range and whose value is the source slice (the `Covering` hypothesis) - evaluated by the driver on every tree of every case",
    "Python re: the semantics of re.split / re.match for the two fixed patterns (compared on every case)",
    "harness/corr/c03.py, c03_gen.py, c03_util.py (generators, wire encoding, monitors)",
]
ASSUMPTIONS = [
    "strings are sequences of code points (Lean List Char = Python str indexing)",
    "the statement is conditional on acceptance: texts the parser refuses (any exception) are counted in the distribution, not judged",
    "models without any ETA are excluded from the model-level monitors (update_source adds a dummy ETA by design)",
    "dataset reading is avoided (missing dataset file): update_source's dataset branch is outside this check",
]

_N = {"quick": 1200, "thorough": 10000}


def budget(tier):
    return int(os.environ.get("VERIF_BUDGET", 0)) or _N[tier]


# ---------------------------------------------------------------- corpus of shipped models

_CORPUS = None


def corpus_files():
    global _CORPUS
    if _CORPUS is None:
        from harness.common.paths import REPO
        fs = sorted(glob.glob(str(REPO / "src/pharmpy/internals/example_models/*.mod")) +
                    glob.glob(str(REPO / "tests/testdata/nonmem/**/*.mod"), recursive=True))
        out = []
        for f in fs:
            try:
                with open(f, newline="", encoding="latin-1") as fh:
                    out.append((os.path.relpath(f, str(REPO)), fh.read()))
            except OSError:
                pass
        _CORPUS = out
    return _CORPUS


# models of the corpus that need files next to them (phi files) or a dataset to be read
def _model_seed_ok(name, text):
    return "$ETAS" not in text.upper() and "pheno_nm750" not in name and len(text) < 6000


# ---------------------------------------------------------------- generation

def gen_cases(rng: random.Random, n: int, tier: str):
    corpus = corpus_files()
    model_seeds = [(nm, t) for nm, t in corpus if _model_seed_ok(nm, t)]
    out = []
    for i in range(n):
        r = rng.random()
        seed = rng.randrange(1 << 30)
        if r < 0.40:
            text = G.gen_stream(rng)
            tags = ["src:generated"]
            if rng.random() < 0.5:
                text, mt = G.mutate(rng, text)
                tags += ["mut:" + t for t in mt]
            out.append({"kind": "text", "text": text, "gen": tags, "seed": seed})
        elif r < 0.69 and corpus:
            nm, text = rng.choice(corpus)
            tags = ["src:corpus"]
            if rng.random() < 0.9:
                text, mt = G.mutate(rng, text)
                tags += ["mut:" + t for t in mt]
            out.append({"kind": "text", "text": text, "gen": tags, "origin": nm, "seed": seed})
        elif r < 0.745 and corpus:
            # option appended to an option record: dedicated layouts (2/3) or any generated / shipped text (1/3)
            q = rng.random()
            if q < 0.67:
                text, okind, ending = G.gen_optedit(rng)
                tags = ["src:generated-optedit", "optedit-ending:" + ending]
            elif q < 0.84:
                text, tags = G.gen_stream(rng), ["src:generated"]
            else:
                nm, text = rng.choice(corpus)
                tags = ["src:corpus"]
                if rng.random() < 0.7:
                    text, mt = G.mutate(rng, text)
                    tags += ["mut:" + t for t in mt]
            out.append({"kind": "optedit", "text": text, "pick": rng.randrange(64), "kidx": rng.randrange(64), "gen": tags, "seed": seed})
        elif r < 0.81:
            text, steps = G.gen_chain_model(rng)
            out.append({"kind": "chain", "text": text, "steps": steps, "gen": ["src:generated-chain-model"], "seed": seed})
        elif r < 0.87:
            text = G.gen_model(rng)
            tags = ["src:generated-model"]
            text, mt = G.layout_mutate(rng, text)
            tags += ["mut:" + t for t in mt]
            out.append({"kind": "model", "text": text, "gen": tags, "seed": seed})
        elif r < 0.96 and model_seeds:
            nm, text = rng.choice(model_seeds)
            tags = ["src:corpus-model"]
            text, mt = G.layout_mutate(rng, text)
            tags += ["mut:" + t for t in mt]
            out.append({"kind": "model", "text": text, "gen": tags, "origin": nm, "seed": seed})
        else:
            alphabet = [" ", " ", "\t", "\x00", ";", "c", "x", "\n", "\n", "\r\n", "\r\n", "&", "&", " ", ";", "$", "=", "é"]
            if rng.random() < 0.25:
                alphabet += ["\r", "a", "("]
            s = "".join(rng.choice(alphabet) for _ in range(rng.randint(0, 24)))
            pre = "".join(rng.choice("ab \n") for _ in range(rng.randint(0, 3)))
            post = "".join(rng.choice("ab \n") for _ in range(rng.randint(0, 3)))
            out.append({"kind": "ignored", "pre": pre, "s": s, "post": post, "seed": seed})
    return out


def corpus_cases():
    cases = [{"kind": "names", "seed": 7}]
    # hand-written witnesses / regression texts
    for t in ["", "no record at all\n", "$PROBLEM\n", "  $PROB x\n\t$TH 1\n", "$THETA 1\r\n$OMEGA 2 ;c\r\n$SIGMA 1", "$PRED\nA = 1 + & \n 2\n",
              "$PRED\n\"FIRST\n\" COMMON\nY=1;c\n;d\n\n", ";; x\n$SIZES LTH=3\n$PROBLEM\n$INPUT ID\n$es\n$ES 1\n", "$PK ()\nA=1\n", "$X\n$1\n",
              "$PROBLEM a\n$INPUT ID DV\n$DATA x.csv IGN=@\n$PRED\nY=THETA(1)+ETA(1)+EPS(1)\n$THETA 1\n$OMEGA 1\n$SIGMA 1\n$ABBR REPLACE THETA(CL)=THETA(1)\n"]:
        cases.append({"kind": "text", "text": t, "gen": ["src:hand"], "seed": 11})
    # a known record without any content as the last thing of the file (seed C03e): text and edited model
    for t in ["$PROBLEM x\n$THETA 1\n$COVARIANCE", "$PROB\n$ESTIMATION", "$PROBLEM\n$INPUT ID\n$cov"]:
        cases.append({"kind": "text", "text": t, "gen": ["src:hand-bare-last"], "seed": 19})
    cases.append({"kind": "model", "gen": ["src:hand-model-bare-last"], "seed": 23, "text":
                  "$PROBLEM x\n$INPUT ID DV\n$DATA none.csv IGNORE=@\n$PRED\nY=THETA(1)+ETA(1)+EPS(1)\n$THETA 1\n$OMEGA 0.1\n$SIGMA 1\n"
                  "$ESTIMATION METHOD=1 INTER ; foce\n$cov"})
    # regression witness of the fixed finding F-C03-2 (c1795fa): bounds of a multi-theta record keep their spelling
    cases.append({"kind": "model", "gen": ["src:hand-model"], "seed": 13, "text":
                  "$PROBLEM x\n$INPUT ID DV\n$DATA none.csv IGNORE=@\n$PRED\nY=THETA(1)+THETA(2)+THETA(3)+THETA(4)+ETA(1)+EPS(1)\n"
                  "$THETA (0.0,0.10,1E3) 1 ; two\n$THETA (-INF,1,+5.0) (0,2,INF) FIX\n$OMEGA 0.1\n$SIGMA 1\n"})
    # option appended to a record whose last item is an end-of-line comment (round 9): the option goes on a line of its own
    for t, pick, kidx in [("$PROBLEM p\n$INPUT ID TIME DV ; observations\n       AMT        ; dose\n$DATA pheno.dta IGNORE=@\n", 0, 0),
                          ("$PROBLEM p\n$INPUT ID DV\n$SUBROUTINES ADVAN1 TRANS2 ; one compartment\n$PK\nCL=THETA(1) ; c\n", 1, 0),
                          ("$PROBLEM p\n$INPUT ID DV\n$TABLE ID TIME NOPRINT FILE=sdtab1 ; standard table", 1, 0),
                          ("$PROBLEM p\n$DATA pheno.dta ; the data\r\n$EST METHOD=1 INTER ; foce-i\n  ; more\n\n", 0, 1)]:
        cases.append({"kind": "optedit", "text": t, "pick": pick, "kidx": kidx, "gen": ["src:hand-optedit"], "seed": 17})
    for nm, text in corpus_files():
        cases.append({"kind": "text", "text": text, "gen": ["src:corpus", "unmutated"], "origin": nm, "seed": 3})
    for nm, text in corpus_files():
        if _model_seed_ok(nm, text) and (nm.endswith("pheno.mod") or nm.endswith("pheno_real.mod") or nm.endswith("pheno_abbr.mod")
                                         or nm.endswith("pheno_block.mod") or nm.endswith("moxo.mod") or nm.endswith("pheno_pd.mod")):
            cases.append({"kind": "model", "text": text, "gen": ["src:corpus-model", "unmutated"], "origin": nm, "seed": 5})
    return cases


def shrink(case):
    if case["kind"] == "chain":
        st = case["steps"]
        for i in range(len(st)):          # fewer steps, fewer edits per step
            if len(st) > 1:
                c = dict(case); c["steps"] = st[:i] + st[i + 1:]; yield c
            if len(st[i]) > 1:
                for j in range(len(st[i])):
                    c = dict(case); c["steps"] = st[:i] + [st[i][:j] + st[i][j + 1:]] + st[i + 1:]; yield c
        lines = case["text"].splitlines(True)
        # one line at a time, a block IF only as a whole (an emptied block is not a valid model)
        i = 0
        while i < len(lines):
            j = i + 1
            if re.match(r"\s*IF\b.*\bTHEN\s*(;.*)?$", lines[i], flags=re.I):
                while j < len(lines) and not re.match(r"\s*END\s*IF\b", lines[j - 1], flags=re.I):
                    j += 1
            c = dict(case); c["text"] = "".join(lines[:i] + lines[j:]); yield c
            i = j
        return
    if case["kind"] not in ("text", "model", "optedit"):
        return
    t = case["text"]
    starts = [m.start() for m in re.finditer(r"^[ \t]*\$", t, flags=re.M)]
    bounds = ([0] if not starts or starts[0] != 0 else []) + starts + [len(t)]
    # drop one record
    for a, b in zip(bounds, bounds[1:]):
        if b > a and (a, b) != (0, len(t)):
            c = dict(case)
            c["text"] = t[:a] + t[b:]
            yield c
    # drop one line
    lines = t.splitlines(True)
    if len(lines) <= 60:
        for i in range(len(lines)):
            c = dict(case)
            c["text"] = "".join(lines[:i] + lines[i + 1:])
            yield c


# ---------------------------------------------------------------- real-code side

class _ReProxy:
    """Stands in for the `re` module inside nmtran_parser so that the record split the parser really performs is observed."""

    def __init__(self, real):
        self._real = real
        self.calls = []

    def split(self, pattern, string, *a, **kw):
        out = self._real.split(pattern, string, *a, **kw)
        self.calls.append((pattern, string, list(out)))
        return out

    def __getattr__(self, name):
        return getattr(self._real, name)


_RE_PROXY = None
_US_CALLS = None     # when a list: every CodeRecord.update_statements call is recorded (edit-chain cases)


def worker_init():
    global NMTranParser, NMTranControlStream, factory, with_ignored_tokens, tokenize_ignored, Visitor, Transformer
    global parse_model, Assignment, Expr, RawRecord
    warnings.filterwarnings("ignore")
    from lark import Transformer, Visitor  # noqa
    from pharmpy.basic import Expr  # noqa
    from pharmpy.internals.parse.ignored import _tokenize_ignored_characters as tokenize_ignored  # noqa
    from pharmpy.internals.parse.ignored import with_ignored_tokens  # noqa
    from pharmpy.model import Assignment  # noqa
    from pharmpy.model.external.nonmem.model import parse_model  # noqa
    from pharmpy.model.external.nonmem.nmtran_parser import NMTranControlStream, NMTranParser  # noqa
    from pharmpy.model.external.nonmem.records import factory  # noqa
    from pharmpy.model.external.nonmem.records.raw_record import RawRecord  # noqa
    global CodeRecord, Statements, OptionRecord
    from pharmpy.model.external.nonmem.records.option_record import OptionRecord
    from pharmpy.model import Statements
    from pharmpy.model.external.nonmem.records.code_record import CodeRecord
    if not getattr(CodeRecord.update_statements, "_c03_hook", False):
        _orig = CodeRecord.update_statements

        def _hooked(self, new, rvs=None, trans=None):
            try:
                old = self._statements
            except AttributeError:
                old = self.statements
            before = (list(self.root.children), [tuple(e) for e in self._index], list(old))
            res = _orig(self, new, rvs, trans)
            if _US_CALLS is not None and res is not self:
                _US_CALLS.append((self, before, list(new), rvs, trans, res))
            return res
        _hooked._c03_hook = True
        CodeRecord.update_statements = _hooked
    global _RE_PROXY
    from pharmpy.model.external.nonmem import nmtran_parser as _np
    if not isinstance(_np.re, _ReProxy):
        _np.re = _ReProxy(_np.re)
    _RE_PROXY = _np.re


def _exc(e):
    return type(e).__name__


def first_diff(a: str, b: str) -> str:
    i = 0
    n = min(len(a), len(b))
    while i < n and a[i] == b[i]:
        i += 1
    return f"at offset {i}: expected {a[max(0, i - 12):i + 20]!r}, got {b[max(0, i - 12):i + 20]!r} (lengths {len(a)}/{len(b)})"


def lark_pre_tree(pcls, content):
    """GenericParser.parse up to (not including) with_ignored_tokens."""
    root = pcls.lark.parse(content)
    for proc in pcls.post_process:
        if proc is with_ignored_tokens:
            continue
        if isinstance(proc, Visitor):
            proc.visit(root)
        elif isinstance(proc, Transformer):
            root = proc.transform(root)
        else:
            root = proc(content, root)
    return root


# ---------------------------------------------------------------- case runners

def run_case(case, drv):
    kind = case["kind"]
    if kind == "text":
        return run_text(case, drv)
    if kind == "model":
        return run_model(case, drv)
    if kind == "chain":
        return run_chain(case, drv)
    if kind == "optedit":
        return run_optedit(case, drv)
    if kind == "names":
        return run_names(case, drv)
    if kind == "ignored":
        return run_ignored(case, drv)
    raise ValueError(kind)


def run_names(case, drv):
    k, mon, tags = [], [], []
    raws = set()
    names = list(factory.known_records) + ["INFILE", "SUBS", "SIML", "SIMULATE", "COVR", "ESTM", "SUBROUTINE", "MSFI", "WARNINGS", "PKX", "P", "PK",
                                          "TH", "ES", "XYZ", "THETAX", "OMEGAS", "A[", "PRED_", "EST^", "sig`"]
    rng = random.Random(case["seed"])
    for nmm in names:
        for j in range(1, len(nmm) + 1):
            for pre in ("$", " $", "\t $"):
                raws.add(pre + nmm[:j])
                raws.add(pre + nmm[:j].lower())
                raws.add(pre + nmm[:j].capitalize())
    for _ in range(300):
        raws.add("$" + "".join(rng.choice("ABCDEIMNOPRSTUV_[a") for _ in range(rng.randint(1, 6))))
    n_known = 0
    for raw in sorted(raws):
        code = factory.get_canonical_record_name(raw) or "none"
        if code != "none":
            n_known += 1
            # property: a resolved abbreviation is a prefix of the name (or a listed synonym)
            bare = raw.lstrip()[1:].upper()
            if not (code.startswith(bare) or bare in ("INFILE", "INFIL", "INFI", "INF", "SUBS", "SIML", "SIMULATE", "COVR", "ESTM")):
                mon.append({"cls": "canonical-name-not-prefix", "what": f"{raw!r} resolves to {code}"})
        if drv is not None:
            m = drv.ask(["canon", enc(raw)])
            if m != code:
                k.append(f"get_canonical_record_name({raw!r}): model {m} code {code}")
    tags += ["names", f"names-resolved={n_known // 100 * 100}+"]
    return {"k": k, "mon": mon, "tags": tags, "nontrivial": True}


def run_ignored(case, drv):
    k, mon, tags = [], [], ["ignored-string"]
    s = case["pre"] + case["s"] + case["post"]
    i, j = len(case["pre"]), len(case["pre"]) + len(case["s"])
    try:
        toks = list(tokenize_ignored(s, i, j))
        code = [[t.type, str(t)] for t in toks]
        tags.append("ignored:ok")
        if "".join(v for _, v in code) != s[i:j]:
            mon.append({"cls": "ignored-tokenize-lossy", "what": f"tokens of {s[i:j]!r} concatenate to {''.join(v for _, v in code)!r}"})
        pos = i
        for t in toks:
            if t.start_pos != pos or t.end_pos != pos + len(str(t)):
                mon.append({"cls": "ignored-tokenize-positions", "what": f"token {t!r} of {s!r}[{i}:{j}] has range ({t.start_pos},{t.end_pos}), expected start {pos}"})
                break
            pos = t.end_pos
    except (AssertionError, IndexError) as e:
        code = ["err", _exc(e)]
        tags.append("ignored:refused")
    if drv is not None:
        m = drv.ask(["tokign", enc(s[i:j])])
        if m and m[0] == "err":
            mm = m
        else:
            mm = dec_leaves(m)
        if mm != code:
            k.append(f"_tokenize_ignored_characters({s!r},{i},{j}): model {mm} code {code}")
    return {"k": k, "mon": mon, "tags": tags, "nontrivial": len(case["s"]) > 1}


def run_text(case, drv):
    rng = random.Random(case["seed"])
    T = case["text"]
    k, mon = [], []
    tags = list(case.get("gen", []))
    # ---- 1. parse with the real parser, observing its own record split -------------------
    _RE_PROXY.calls.clear()
    try:
        cs = NMTranParser().parse(T)
        accepted = True
    except Exception as e:
        cs = None
        accepted = False
        tags.append("refused:" + _exc(e))
    splits = [c for c in _RE_PROXY.calls if c[1] == T]
    if len(splits) != 1:
        k.append(f"record split of NMTranParser.parse not observed through re.split ({len(splits)} calls on the text)")
        pieces = re.split(r'^([ \t]*\$)', T, flags=re.MULTILINE)
    else:
        pieces = splits[0][2]
    if "".join(pieces) != T:
        mon.append({"cls": "split-join", "what": "the pieces of the record split do not concatenate to the text"})
    if drv is not None:
        m = [dec(x) for x in drv.ask(["split", enc(T)])]
        if m != pieces:
            k.append(f"record split: model {m[:6]} code {pieces[:6]}")
    chunks = [a + b for a, b in zip(pieces[1::2], pieces[2::2])]
    tags.append(f"records={min(len(chunks), 20) // 5 * 5}+")
    # ---- 2. raw names / canonical names (front end) -----------------------------------
    try:
        fr = [factory.split_raw_record_name(c) for c in chunks]
        front = ["ok", pieces[0], [[a, factory.get_canonical_record_name(a) or "none", b] for a, b in fr]]
        for (a, b), c in zip(fr, chunks):
            if a + b != c:
                mon.append({"cls": "raw-name-split-lossy", "what": f"raw_name+content != chunk for {c[:60]!r}"})
    except Exception as e:
        front = ["err", _exc(e)]
    if drv is not None:
        m = drv.ask(["front", enc(T)])
        if m[0] == "ok":
            m = ["ok", dec(m[1]), [[dec(a), c, dec(b)] for a, c, b in m[2]]]
        if m != front:
            k.append(f"front end (raw name, canonical name, content): model {str(m)[:300]} code {str(front)[:300]}")
    # ---- 3. the property: str(parse(T)) == T -------------------------------------------
    if accepted:
        tags.append("accepted")
        out = str(cs)
        recs = list(cs.records)
        expected = ([pieces[0]] if pieces[0] else []) + chunks
        if len(recs) != len(expected):
            mon.append({"cls": "roundtrip-record-count", "what": f"{len(recs)} records for {len(expected)} chunks"})
        else:
            for r, c in zip(recs, expected):
                if str(r) != c:
                    nm = r.name if isinstance(r.name, str) and r.name in factory.known_records else "RAW"
                    mon.append({"cls": f"roundtrip-record-{nm}", "what": f"str(record) != source for ${nm}: {first_diff(c, str(r))}"})
                    break
        if out != T and not mon:
            mon.append({"cls": "roundtrip-text", "what": "str(parse(T)) != T: " + first_diff(T, out)})
        for r in recs:
            tags.append("rec:" + (r.name if r.name in factory.known_records else ("RAW" if r.raw_name else "PRETEXT")))
        if "\r\n" in T:
            tags.append("has:crlf")
        if "\x00" in T:
            tags.append("has:nul")
        if "&" in T:
            tags.append("has:ampersand")
        if re.search(r'^[ \t]*"', T, flags=re.M):
            tags.append("has:verbatim-line")
        if pieces[0]:
            tags.append("has:text-before-first-record")
    # ---- 4. per record: lark tree -> with_ignored_tokens vs Lean interleave ------------
    if front[0] == "ok":
        for (raw, canon, content), chunk in zip(front[2], chunks):
            if canon == "none":
                continue
            rcls, pcls = factory.known_records[canon]
            if with_ignored_tokens not in pcls.post_process:
                continue
            try:
                pre = lark_pre_tree(pcls, content)
            except Exception:
                continue   # refused by the grammar
            wire = lark_tree_to_wire(pre)
            try:
                post = with_ignored_tokens(content, pre)
                code = ["ok", lark_leaves(post)]
                if "".join(v for _, v in code[1]) != content:
                    mon.append({"cls": f"cst-lossy-{canon}", "what": f"leaves of with_ignored_tokens do not concatenate to the content of ${canon}: "
                                + first_diff(content, ''.join(v for _, v in code[1]))})
            except (AttributeError, AssertionError, IndexError) as e:
                code = ["err", _exc(e)]
                tags.append("with-ignored-raises:" + _exc(e))
            if accepted and code[0] == "ok":
                # the same leaves must be what the record really holds
                try:
                    real = factory.create_record(chunk)
                    if attr_leaves(real.root) != code[1]:
                        k.append(f"harness replication of GenericParser.parse differs from create_record for ${canon}")
                except Exception:
                    pass
            if drv is not None:
                m = drv.ask(["withignored", enc(content), wire])
                if m[0] == "ok":
                    mm = ["ok", dec_leaves(m[2])]
                    cov = m[1]
                    if dec(m[3]) != content:
                        k.append(f"Lean withIgnored on ${canon}: str != content although the theorem applies (covering={cov})")
                elif m[0] == "err" and len(m) == 3:
                    mm = ["err", m[2][1]]
                    cov = m[1]
                else:
                    mm, cov = m, "?"
                if cov != "true":
                    tags.append("covering-false")
                    if code[0] == "ok":
                        k.append(f"lark tree of ${canon} violates the Covering hypothesis (positions/values), content {content[:80]!r}")
                if mm != code:
                    k.append(f"with_ignored_tokens on ${canon} {content[:60]!r}: model {str(mm)[:200]} code {str(code)[:200]}")
                tags.append("tree:" + canon)
    # ---- 5. record operations on the parsed stream -------------------------------------
    if accepted:
        run_record_ops(cs, rng, drv, k, mon, tags)
    return {"k": k, "mon": mon, "tags": tags, "nontrivial": accepted and len(chunks) >= 2}


NEW_RECORDS = ["$THETA 1 ; new\n", "$OMEGA 0.1\n", "$PK\nX=1\n", "$ESTIMATION METHOD=1\n", "$TABLE ID FILE=t\n", "$SIZES LTH=3\n", "$WARNINGS NONE\n",
               "$ABBR REPLACE ETA_X=ETA(1)\n", "$PROBLEM second\n", "$INPUT ID\n", "$COVARIANCE\n", "$MSFI x\n", "$SIGMA 1\n", "$ETAS FILE=a.phi\n"]


def run_record_ops(cs, rng, drv, k, mon, tags):
    recs = list(cs.records)
    ids = {id(r): i for i, r in enumerate(recs)}
    wire = [[enc(str(r.name)), i] for i, r in enumerate(recs)]
    strs = [str(r) for r in recs]

    # get_records: every record name of the stream plus two absent ones, problem numbers -1 .. 2
    for nm in sorted({str(r.name) for r in recs} | {"SIZES", "THETA"}):
        for pno in (0, 1, 2, -1):
            code = [str(ids[id(r)]) for r in cs.get_records(nm, pno)]
            tags.append("op:get_records")
            if drv is not None:
                m = drv.ask(["getrecords", wire, enc(nm), pno])
                if m != code:
                    k.append(f"get_records({nm!r}, {pno}): model {m} code {code} (records {[r.name for r in recs]})")
    for _ in range(3):
        op = rng.choice(["insert", "insert", "insert-at", "replace_all", "remove", "replace"])
        news = [factory.create_record(rng.choice(NEW_RECORDS)) for _ in range(rng.randint(1, 2))]
        for j, nr in enumerate(news):
            ids[id(nr)] = 1000 + j
        tags.append("op:" + op)
        try:
            if op in ("insert", "insert-at"):
                at = rng.randint(0, len(recs) + 1) if op == "insert-at" else None
                res = cs.insert_record(news[0], at_index=at)
                req = ["insert", wire, [enc(news[0].name), 1000], "none" if at is None else at, 0]
                others = [str(r) for r in res.records if r is not news[0]]
                if others != strs or sum(1 for r in res.records if r is news[0]) != 1:
                    mon.append({"cls": "frame-insert_record", "what": f"insert_record(${news[0].name}) changed or reordered existing records"})
            elif op == "replace_all":
                name = news[0].name
                news = [n for n in news if n.name == name]
                req = ["replaceall", wire, enc(name), [[enc(n.name), ids[id(n)]] for n in news]]
                res = cs.replace_all(name, news)
                others = [str(r) for r in res.records if r.name != name]
                if others != [s for r, s in zip(recs, strs) if r.name != name]:
                    mon.append({"cls": "frame-replace_all", "what": f"replace_all({name}) changed or reordered records of other names"})
                if [r for r in res.records if r.name == name] != news:
                    mon.append({"cls": "frame-replace_all-new", "what": f"replace_all({name}) did not install exactly the new records"})
            elif op == "remove":
                rm = rng.sample(recs, min(len(recs), rng.randint(0, 2)))
                res = cs.remove_records(rm)
                req = ["remove", wire, [[enc(str(r.name)), ids[id(r)]] for r in rm]]
                keep = [s for r, s in zip(recs, strs) if not any(r is x for x in rm)]
                if [str(r) for r in res.records] != keep:
                    mon.append({"cls": "frame-remove_records", "what": "remove_records changed or reordered the remaining records"})
            else:
                old = rng.sample(recs, min(len(recs), rng.randint(0, 2)))
                res = cs.replace_records(old, news)
                req = ["replace", wire, [[enc(str(r.name)), ids[id(r)]] for r in old], [[enc(n.name), ids[id(n)]] for n in news]]
                keep = [s for r, s in zip(recs, strs) if not any(r is x for x in old)]
                if [str(r) for r in res.records if not any(r is n for n in news)] != keep:
                    mon.append({"cls": "frame-replace_records", "what": "replace_records changed or reordered the other records"})
            code = [str(ids[id(r)]) for r in res.records]
        except ValueError:
            code = ["err", "ValueError"]       # replace_all of a name outside default_record_order: documented by the code's .index()
            tags.append("op-refused:ValueError")
        if drv is not None:
            m = drv.ask(req)
            if m != code:
                k.append(f"{op}: model {m} code {code} (records {[r.name for r in recs]}, new {[n.name for n in news]})")


# ---------------------------------------------------------------- option appended to an option record

# comments are judged on the parser's own COMMENT tokens (in $DATA `RECORDS=10; x` reads `10;` as a value: not a comment to pharmpy)


def _child_rule(c):
    return str(c.rule)


def run_optedit(case, drv):
    """OptionRecord.append_option on one record of a parsed stream: K on `_append_option_args` / `append_option_node`
    (children by identity) and the clause "after a modification every record and every comment that does not express the
    modified component is preserved exactly and in order" on the printed and re-read stream."""
    T = case["text"]
    k, mon = [], []
    tags = list(case.get("gen", []))
    try:
        cs = NMTranParser().parse(T)
    except Exception as e:
        tags.append("refused:" + _exc(e))
        return {"k": k, "mon": mon, "tags": tags, "nontrivial": False}
    if str(cs) != T:
        return {"k": k, "mon": mon, "tags": tags + ["optedit-roundtrip-differs(judged by kind=text)"], "nontrivial": False}
    cands = [r for r in cs.records if isinstance(r, OptionRecord) and r.name in G.APPEND_OPTS]
    if not cands:
        tags.append("optedit-no-option-record")
        return {"k": k, "mon": mon, "tags": tags, "nontrivial": False}
    rec = cands[case["pick"] % len(cands)]
    table = G.APPEND_OPTS[rec.name]
    key, value = table[case["kidx"] % len(table)]
    children = list(rec.root.children)
    rules = [_child_rule(c) for c in children]
    tags += ["optedit-record:" + rec.name, "optedit-children=" + str(min(len(children), 20) // 5 * 5) + "+"]
    last_sig = next((r for r in reversed(rules) if r not in ("WS", "NEWLINE")), "none")
    tags.append("optedit-last-item:" + (last_sig if last_sig in ("option", "COMMENT", "none") else "other"))
    if last_sig == "COMMENT":
        i_c = max(i for i, r in enumerate(rules) if r == "COMMENT")
        tags.append("optedit-comment-followed-by:" + (rules[i_c + 1] if i_c + 1 < len(rules) else "end"))
    what = f"append_option({key!r}, {value!r}) on ${rec.name} {str(rec)!r}"
    # ---- the real edit
    try:
        args = rec._append_option_args()
        new = rec.append_option(key, value)
        code = ["ok", str(args[0]), str(args[1]), str(args[2].rule)]
    except IndexError:
        new = None
        code = ["err", "IndexError"]          # empty root (`$INPUT` and nothing else): children[-1]
        tags.append("optedit-refused:IndexError")
    except (ValueError, AssertionError) as e:
        new = None
        code = None                            # refusal of the record class (option_defs: duplicate / bad value)
        tags.append("optedit-refused:" + _exc(e))
    # ---- K
    if drv is not None and code is not None:
        ans = drv.ask(["appendoption", rules])
        if ans[0] == "ok" and new is not None:
            ids = {id(c): i for i, c in enumerate(children)}

            def uid(c):
                if id(c) in ids:
                    return str(ids[id(c)])
                r = _child_rule(c)
                if r == "option":
                    return "1000000"
                if r == "WS" and str(c) == " ":
                    return "1000001"
                if r == "NEWLINE" and str(c) == "\n":
                    return "1000002"
                return "?" + r
            real = [uid(c) for c in new.root.children]
            if ans[1:4] != code[1:4]:
                k.append(f"_append_option_args of {what}: model {ans[1:4]} code {code[1:4]} (rules {rules})")
            if ans[4] != real:
                k.append(f"append_option_node of {what}: new children: model {ans[4]} code {real} (rules {rules})")
            if ans[5] == "true" and ans[6] != "true":
                k.append(f"{what}: Lean model contradicts its theorem (commentsOk {ans[5]} -> {ans[6]})")
        elif ans[:2] != code[:2]:
            k.append(f"{what}: model {ans} code {code}")
    if new is None:
        return {"k": k, "mon": mon, "tags": tags, "nontrivial": False}
    tags.append("optedit-done")
    # ---- Mon: the statement on the printed and re-read code
    cs2 = cs.replace_records([rec], [new])
    code2 = str(cs2)
    pos = next(i for i, r in enumerate(cs.records) if r is rec)
    try:
        recs2 = list(NMTranParser().parse(code2).records)
    except Exception as e:
        mon.append({"cls": "append-option-unparseable", "what": f"after {what} the printed stream is not accepted ({_exc(e)})"})
        return {"k": k, "mon": mon, "tags": tags, "nontrivial": True}
    old_strs = [str(r) for r in cs.records]
    if len(recs2) != len(old_strs) or [str(r) for j, r in enumerate(recs2) if j != pos] != [s_ for j, s_ in enumerate(old_strs) if j != pos]:
        mon.append({"cls": "append-option-changes-other-records", "what": f"after {what} the other records of the stream are not preserved "
                    "exactly and in order: " + first_diff(T, code2)})
        return {"k": k, "mon": mon, "tags": tags, "nontrivial": True}
    rec2 = recs2[pos]
    old_comments = [v for r_, v in attr_leaves(rec.root) if r_ == "COMMENT"]
    new_comments = [v for r_, v in attr_leaves(rec2.root) if r_ == "COMMENT"] if hasattr(rec2, "root") else None
    if new_comments != old_comments:
        cls = "append-option-alters-comment"
        if new_comments is not None and len(new_comments) == len(old_comments) and all(b.startswith(a) for a, b in zip(old_comments, new_comments)):
            cls = "append-option-lands-in-trailing-comment"
        mon.append({"cls": cls, "what": f"after {what} the comments of the record are {new_comments!r}, were {old_comments!r}; printed {str(new)!r}"})
    def _bare(r):
        return "".join(v for r_, v in attr_leaves(r.root) if r_ not in ("COMMENT", "WS", "NEWLINE"))
    if hasattr(rec2, "root") and _bare(rec2) == _bare(rec):
        mon.append({"cls": "append-option-not-read-back", "what": f"after {what} the printed record {str(rec2)!r} re-read has the same content "
                    "outside comments as before: the appended option is not expressed"})
    elif isinstance(rec2, OptionRecord) and rec.name != "DATA":      # $DATA has rules of its own (ignchar, …) that all_options does not list
        old_opts = [(o.key, o.value) for o in rec.all_options]
        new_opts = [(o.key, o.value) for o in rec2.all_options]
        if new_opts[:len(old_opts)] != old_opts or len(new_opts) > len(old_opts) + 1:
            mon.append({"cls": "append-option-changes-existing-options", "what": f"after {what} the options read back are {new_opts}, were {old_opts}"})
        elif new_opts[len(old_opts):] != [(key, value)]:
            mon.append({"cls": "append-option-not-read-back", "what": f"after {what} the appended option is not an option of the printed record "
                        f"{str(rec2)!r} (options {new_opts})"})
    # the children other than a trailing blank are the same objects, in order
    kept = [c for c in new.root.children if any(c is o for o in children)]
    want = children[:-1] if children and _child_rule(children[-1]) == "WS" else children
    if len(kept) != len(want) or any(a is not b for a, b in zip(kept, want)):
        mon.append({"cls": "append-option-drops-or-reorders-nodes", "what": f"after {what} the nodes of the record were not kept in order"})
    return {"k": k, "mon": mon, "tags": tags, "nontrivial": True}


# ---------------------------------------------------------------- model level

def _records(code):
    return list(NMTranParser().parse(code).records)


def _kind(r):
    return r.name if r.name in factory.known_records else "RAW"


def _comments_and_verbatim(text):
    """Comment texts and verbatim lines of a record text, in order."""
    out = []
    for line in text.splitlines():
        if line.lstrip().startswith('"'):
            out.append(line.strip())
        elif ";" in line:
            out.append(line[line.index(";"):].rstrip())
    return out


def _is_subseq(a, b):
    it = iter(b)
    return all(any(x == y for y in it) for x in a)


def changed_kinds(old_recs, new_recs):
    """The smallest set S of record kinds (ties: kinds whose texts changed first, then alphabetical) such that the
    old records of the kinds outside S reappear in the new text unchanged and in order."""
    import itertools
    from collections import Counter
    olds = [(str(r), _kind(r)) for r in old_recs]
    news = [str(r) for r in new_recs]
    if _is_subseq([s for s, _ in olds], news):
        return set()
    newc = Counter(news)
    must = set()
    for kd in {k for _, k in olds}:
        oc = Counter(s for s, k in olds if k == kd)
        if any(newc[s] < c for s, c in oc.items()):
            must.add(kd)
    rest = sorted({k for _, k in olds} - must)
    for size in range(len(rest) + 1):
        for extra in itertools.combinations(rest, size):
            S = must | set(extra)
            if _is_subseq([s for s, k in olds if k not in S], news):
                return S
    return {k for _, k in olds}


_NUM = re.compile(r"(?<![A-Za-z_0-9.])[-+]?(?:\d+\.?\d*|\.\d+)(?:[eE][-+]?\d+)?(?![A-Za-z_0-9])")


def _theta_norm(text):
    """$THETA text with every number replaced by its float value and absent/infinite upper bounds unified."""
    t = _NUM.sub(lambda m: repr(float(m.group(0))), text.upper())
    t = re.sub(r",\s*(INF|1000000\.0)\s*\)", ")", t)
    return t


def change_class(kind, old_recs, new_recs):
    """Witness class of a change of the records of `kind` that the edit does not explain."""
    if kind == "THETA":
        o = [str(r) for r in old_recs if _kind(r) == "THETA"]
        n = [str(r) for r in new_recs if _kind(r) == "THETA"]
        if len(o) == len(n) and all(a == b or (_theta_norm(a) == _theta_norm(b) and len(r) >= 2)
                                    for a, b, r in zip(o, n, [r for r in old_recs if _kind(r) == "THETA"])):
            return "respells-bounds-of-multi-theta-record"
    if kind == "ABBREVIATED":
        # known witness class: only records carrying a REPLACE option are regenerated; every other
        # $ABBREVIATED record must reappear unchanged and in order
        def is_repl(text):
            body = re.sub(r";[^\n]*", "", text.upper())
            return re.search(r"(?<![A-Z0-9_])REP(L(A(C(E)?)?)?)?(?![A-Z0-9_])", body) is not None
        o = [str(r) for r in old_recs if _kind(r) == "ABBREVIATED"]
        n = [str(r) for r in new_recs if _kind(r) == "ABBREVIATED"]
        plain = [x for x in o if not is_repl(x)]
        rest = list(n)
        ok = any(is_repl(x) for x in o) and _is_subseq(plain, n)
        for x in plain:
            if x in rest:
                rest.remove(x)
        if ok and all(is_repl(x) for x in rest):
            return "rewrites-abbr-replace-records"
    if kind == "PK":
        import difflib
        o = "".join(str(r) for r in old_recs if _kind(r) == "PK").splitlines()
        n = "".join(str(r) for r in new_recs if _kind(r) == "PK").splitlines()
        des = "".join(str(r) for r in old_recs if _kind(r) == "DES")
        lhs = lambda line: (re.match(r"\s*([A-Za-z_]\w*)\s*=", line) or [None, None])[1]
        des_lhs = {lhs(x).upper() for x in des.splitlines() if lhs(x) and not lhs(x).upper().startswith("DADT")}
        d = list(difflib.ndiff(o, n))
        added = [x[2:] for x in d if x.startswith("+ ")]
        removed = [x[2:] for x in d if x.startswith("- ")]
        if des_lhs and added and not removed and all(lhs(x) and lhs(x).upper() in des_lhs for x in added):
            return "copies-des-assignment-into-pk"
    return "changes-" + kind


def run_model(case, drv):
    rng = random.Random(case["seed"])
    T = case["text"]
    k, mon = [], []
    tags = list(case.get("gen", []))
    try:
        model = parse_model(T)
    except Exception as e:
        tags.append("model-refused:" + _exc(e))
        return {"k": k, "mon": mon, "tags": tags, "nontrivial": False}
    tags.append("model-read")
    try:
        old_recs = _records(T)
    except Exception as e:
        tags.append("model-refused:" + _exc(e))
        return {"k": k, "mon": mon, "tags": tags, "nontrivial": False}
    has_abbr = any(r.name == "ABBREVIATED" for r in old_recs)
    if has_abbr:
        tags.append("model-has-abbr")
    # ---- no-op regeneration --------------------------------------------------------------
    noop_ok = False
    if not model.random_variables.etas:
        # update_source adds DUMMYETA / $OMEGA 0 FIX by design: neither the no-op nor the frame monitors apply
        tags.append("model-without-etas(skipped)")
        return {"k": k, "mon": mon, "tags": tags, "nontrivial": False}
    else:
        try:
            code = model.update_source().code
            tags.append("noop-run")
            if code != T:
                try:
                    new_recs = _records(code)
                except Exception as e:
                    new_recs = None
                    mon.append({"cls": "update-noop-unparseable", "what": f"the regenerated code of an unmodified model is not accepted by the "
                                f"parser ({_exc(e)}): " + first_diff(T, code)})
                for kd in [] if new_recs is None else sorted(changed_kinds(old_recs, new_recs)) or ["ORDER-OR-ADDED"]:
                    mon.append({"cls": "update-noop-" + change_class(kd, old_recs, new_recs),
                                "what": f"code(update_source(read(T))) != T for an unmodified model (${kd} records differ): " + first_diff(T, code)})
            else:
                noop_ok = True
        except Exception as e:
            tags.append("noop-raises:" + _exc(e))
    # ---- single edits ---------------------------------------------------------------------
    for edit in ("theta", "omega", "sigma", "stmt", "desc"):
        try:
            res = apply_edit(model, edit, rng)
        except Exception as e:
            tags.append(f"edit-{edit}-raises:" + _exc(e))
            continue
        if res is None:
            tags.append(f"edit-{edit}-not-applicable")
            continue
        m2, allowed, what = res
        try:
            code2 = m2.update_source().code
        except Exception as e:
            tags.append(f"edit-{edit}-update-raises:" + _exc(e))
            continue
        tags.append(f"edit-{edit}")
        try:
            new_recs = _records(code2)
        except Exception as e:
            mon.append({"cls": f"frame-{edit}-unparseable", "what": f"after {what} the regenerated code is not accepted by the parser "
                        f"({_exc(e)}): " + first_diff(T, code2)})
            continue
        ch = changed_kinds(old_recs, new_recs) - allowed
        for kd in sorted(ch):
            mon.append({"cls": f"frame-{edit}-" + change_class(kd, old_recs, new_recs),
                        "what": f"after {what} the ${kd} records (unrelated kind) changed; " + first_diff(T, code2)})
        # comments and verbatim lines of the edited kinds survive, in order
        # (for $PROBLEM the first line is the title itself, `;` included: it expresses the edited component)
        body = (lambda r: str(r).partition("\n")[2]) if edit == "desc" else str
        old_cv = [c for r in old_recs if _kind(r) in allowed for c in _comments_and_verbatim(body(r))]
        new_cv = [c for r in new_recs if _kind(r) in allowed for c in _comments_and_verbatim(body(r))]
        if not _is_subseq(old_cv, new_cv):
            cls = f"frame-{edit}-loses-comment"
            if edit == "stmt" and len(model.dependent_variables) > 1:
                # narrower witness class: every lost comment stood inside an IF (DVID…) … ENDIF block of the old code
                it = iter(new_cv)
                lost = [c for c in old_cv if not any(c == y for y in it)]
                inside = []
                for r in old_recs:
                    if _kind(r) in allowed:
                        depth = 0
                        for line in str(r).splitlines():
                            code_part = line.split(";")[0].upper()
                            if depth == 0 and re.match(r"\s*IF\s*\(\s*DVID\b.*THEN\s*$", code_part):
                                depth = 1
                            elif depth and re.match(r"\s*IF\b.*THEN\s*$", code_part):
                                depth += 1
                            if depth:
                                inside += _comments_and_verbatim(line)
                            if depth and re.match(r"\s*END\s*IF\b", code_part):
                                depth -= 1
                if lost and all(c in inside for c in lost):
                    cls = "frame-stmt-dvid-block-regenerated-loses-comment"
            mon.append({"cls": cls,
                        "what": f"after {what} a comment or verbatim line of the edited records was lost or reordered: {old_cv} -> {new_cv}"})
        if code2 == T:
            mon.append({"cls": f"edit-{edit}-not-written", "what": f"{what} did not change the code"})
    return {"k": k, "mon": mon, "tags": tags, "nontrivial": True}


def apply_edit(model, edit, rng):
    """Returns (edited model, kinds allowed to change, description) or None."""
    params = model.parameters
    rvs = model.random_variables
    if edit in ("theta", "omega", "sigma"):
        if edit == "theta":
            cands = [p for p in params if p.symbol not in rvs.free_symbols and not p.fix]
            allowed = {"THETA"}
        elif edit == "omega":
            cands = [p for p in params if p.symbol in rvs.etas.free_symbols and not p.fix
                     and any(p.symbol == d.variance for d in rvs.etas if len(d) == 1)]
            allowed = {"OMEGA"}
        else:
            cands = [p for p in params if p.symbol in rvs.epsilons.free_symbols and not p.fix
                     and any(p.symbol == d.variance for d in rvs.epsilons if len(d) == 1)]
            allowed = {"SIGMA"}
        if not cands:
            return None
        p = rng.choice(cands)
        lo, up = float(p.lower), float(p.upper)
        cur = float(p.init)
        new = None
        for cand in (cur * 1.5, cur * 0.5, cur + 1.0, (lo + up) / 2 if abs(lo) < 1e9 and abs(up) < 1e9 else None):
            if cand is not None and cand != cur and lo < cand < up and cand != 0:
                new = round(cand, 6)
                if new != cur and lo < new < up:
                    break
                new = None
        if new is None:
            return None
        m2 = model.replace(parameters=params.set_initial_estimates({p.name: new}))
        return m2, allowed, f"setting the initial estimate of {p.name} to {new}"
    if edit == "desc":
        new = "changed description c03"
        if model.description == new:
            return None
        return model.replace(description=new), {"PROBLEM"}, "setting the description"
    # statement edit: append one assignment at the end
    sts = model.statements
    last = sts[-1]
    if not isinstance(last, Assignment):
        return None
    new_stmt = Assignment.create(Expr.symbol("ZZNEW"), last.symbol * 2)
    m2 = model.replace(statements=sts + new_stmt)
    return m2, {"PRED", "ERROR"}, "appending the statement ZZNEW = 2*" + str(last.symbol)


# ---------------------------------------------------------------- edit chains (update_source after every edit, on the regenerated object)

CODE_KINDS = ("PK", "PRED", "ERROR", "DES")


def _code_lines(recs):
    return [ln for r in recs if _kind(r) in CODE_KINDS for ln in str(r).splitlines()[1:]]


def _is_nonstmt_line(ln):
    t = ln.strip()
    return t == "" or t.startswith(";") or t.startswith('"')


def _expresses(ln, names):
    m = re.match(r"\s*([A-Za-z_]\w*)\s*=", ln)
    return bool(m) and m.group(1).upper() in names


def _gap_nodes(children, index):
    covered = set()
    for ni, nj, _, _ in index:
        covered.update(range(ni, nj))
    return [c for i, c in enumerate(children) if i not in covered]


def _rec_inv(children, index, nstmts):
    pos, si = 0, 0
    for ni, nj, s0, s1 in index:
        if not (pos <= ni <= nj and s0 == si and si <= s1):
            return False
        pos, si = nj, s1
    return pos <= len(children) and si == nstmts and sum(max(1, s1 - s0) for _, _, s0, s1 in index) == nstmts


def check_update_calls(calls, drv, k, mon, tags, label):
    """Every recorded CodeRecord.update_statements call: the clause on the real objects (nodes outside the index are
    exactly preserved, in order; the invariant holds again) and K (children + _index vs the Lean updateStatements)."""
    for rec, (children, index, old), new, rvs, trans, newrec in calls:
        tags.append("us-call")
        lab = f"{label} ${rec.name}"
        inv_old = _rec_inv(children, index, len(old))
        if not inv_old:
            tags.append("us-call-precondition-false")
        new_children, new_index = list(newrec.root.children), [tuple(e) for e in newrec._index]
        if inv_old:
            go, gn = _gap_nodes(children, index), _gap_nodes(new_children, new_index)
            if len(go) != len(gn) or any(a is not b for a, b in zip(go, gn)):
                mon.append({"cls": "record-nonstatement-nodes-not-preserved",
                            "what": f"{lab}: the nodes outside the index (comment / verbatim / blank lines) were "
                                    f"{[str(x) for x in go]} before update_statements and are {[str(x) for x in gn]} after it "
                                    f"(new index {new_index})"[:700]})
            if not _rec_inv(new_children, new_index, len(new)):
                mon.append({"cls": "record-index-invariant-broken",
                            "what": f"{lab}: the index {new_index} of the updated record is not a partition accounting for its "
                                    f"{len(new)} statements ({len(new_children)} nodes)"})
        if drv is None:
            continue
        nodeid = {id(c): i for i, c in enumerate(children)}
        pool = []

        def code_of(st):
            for i, t in enumerate(pool):
                if t == st:
                    return i
            pool.append(st)
            return len(pool) - 1
        oi, ni_ = [code_of(st) for st in old], [code_of(st) for st in new]
        lens, defined = [], set()
        for st, c in zip(new, ni_):
            try:
                lens.append([c, len(rec._statement_to_nodes(set(defined), st, rvs, trans))])
            except Exception:
                lens.append([c, 1])
            if hasattr(st, "symbol"):
                defined.add(st.symbol)
        verb = [i for i, c in enumerate(children) if getattr(c, "rule", None) == "verbatim"]
        fallback = verb[0] if verb else len(children)
        ans = drv.ask(["recupdate", list(range(len(children))), [list(e) for e in index], fallback, oi, ni_, lens])
        real_children = ["G" if id(c) not in nodeid else str(nodeid[id(c)]) for c in new_children]
        real_index = [[str(x) for x in e] for e in new_index]
        if ans[0] != "ok":
            k.append(f"{lab}: model {ans}, code completed")
            continue
        m_children = ["G" if int(x) >= 1000000 else x for x in ans[1]]
        if m_children != real_children:
            k.append(f"{lab}: new children: model {m_children} code {real_children}")
        if ans[2] != real_index:
            k.append(f"{lab}: new _index: model {ans[2]} code {real_index}")
        if (ans[5] == "true") != inv_old:
            k.append(f"{lab}: invariant of the old record: model {ans[5]} harness {inv_old}")
        if ans[5] == "true" and (ans[3] != ans[4] or ans[6] != "true"):
            k.append(f"{lab}: Lean model contradicts its theorem (gaps {ans[3]} -> {ans[4]}, invariant {ans[6]})")


def run_chain(case, drv):
    global _US_CALLS
    rng = random.Random(case["seed"])
    T = case["text"]
    k, mon = [], []
    tags = list(case.get("gen", []))
    try:
        model = parse_model(T)
        prev_recs = _records(T)
    except Exception as e:
        tags.append("model-refused:" + _exc(e))
        return {"k": k, "mon": mon, "tags": tags, "nontrivial": False}
    if not model.random_variables.etas:
        tags.append("model-without-etas(skipped)")
        return {"k": k, "mon": mon, "tags": tags, "nontrivial": False}
    prev_code = T
    done = 0
    zz = 0
    rec_mon = []        # record-level failures are listed after the textual ones of the same case
    for n, step in enumerate(case["steps"], start=1):
        sts = list(model.statements)
        code_lines = _code_lines(prev_recs)

        def editable(st):
            if not isinstance(st, Assignment) or st.expression.is_piecewise():
                return False
            nm = st.symbol.name.upper()
            if sum(1 for x in sts if isinstance(x, Assignment) and x.symbol == st.symbol) != 1:
                return False
            return sum(1 for ln in code_lines if _expresses(ln, {nm})) == 1 and nm not in ("F",)
        cands = [i for i, st in enumerate(sts) if editable(st)]
        if not cands:
            tags.append("chain-no-editable-statement")
            break
        edited, gone, added, what = set(), set(), set(), []
        new = list(sts)
        for e in step:
            live = [i for i, st in enumerate(new) if isinstance(st, Assignment) and st.symbol.name.upper() not in edited
                    and any(st is sts[j] for j in cands)]
            if not live:
                continue
            i = live[e[1] % len(live)]
            st = new[i]
            nm = st.symbol.name.upper()
            if e[0] == "mod":
                expr = {"*2": st.expression * 2, "+1": st.expression + 1, "*WGT": st.expression * Expr.symbol("WGT"),
                        "-0.5": st.expression - 0.5}[e[2]]
                new[i] = Assignment.create(st.symbol, expr)
                edited.add(nm)
                what.append(f"modify {nm}")
            elif e[0] == "del":
                if nm in ("Y", "S1", "V", "CL", "IPRED"):
                    continue
                del new[i]
                edited.add(nm)
                gone.add(nm)
                what.append(f"delete {nm}")
            else:
                zz += 1
                znm = f"ZZ{zz}"
                new.insert(i + 1, Assignment.create(Expr.symbol(znm), st.symbol * 2))
                edited.add(znm)
                added.add(znm)
                what.append(f"insert {znm} after {nm}")
        if not what:
            continue
        label = f"step {n} ({', '.join(what)})"
        _US_CALLS = []
        try:
            model2 = model.replace(statements=Statements(new)).update_source()
            code = model2.code
        except Exception as e:
            tags.append("chain-step-refused:" + _exc(e))
            _US_CALLS = None
            continue
        calls, _US_CALLS = _US_CALLS, None
        done += 1
        tags.append("chain-step")
        for w in what:
            tags.append("chain-edit:" + w.split()[0])
        check_update_calls(calls, drv, k, rec_mon, tags, label)
        # ---- the frame clause on the text
        try:
            new_recs = _records(code)
        except Exception as e:
            mon.append({"cls": "chain-unparseable", "what": f"{label}: regenerated code not accepted ({_exc(e)})"})
            break
        for kd in sorted(changed_kinds(prev_recs, new_recs) - set(CODE_KINDS)):
            mon.append({"cls": "chain-" + change_class(kd, prev_recs, new_recs),
                        "what": f"{label}: the ${kd} records (unrelated kind) changed; " + first_diff(prev_code, code)})
        old_lines, new_lines = _code_lines(prev_recs), _code_lines(new_recs)
        protected = [ln for ln in old_lines if not _expresses(ln, edited)]
        if not _is_subseq(protected, new_lines):
            norm = lambda ln: ln.lstrip(" \t") if _is_nonstmt_line(ln) else ln
            it = iter(new_lines)
            lost = [ln for ln in protected if not any(ln == y for y in it)]
            if _is_subseq([norm(x) for x in protected], [norm(x) for x in new_lines]):
                # every line is there, in order; only the blanks in front of a comment / verbatim / blank line differ
                cls = "chain-nonstatement-line-reindented"
                it = iter(new_lines)
                lost = [ln for ln in protected if _is_nonstmt_line(ln) and ln not in new_lines]
            elif all(_is_nonstmt_line(x) for x in lost):
                cls = "chain-nonstatement-line-lost"
            else:
                cls = "chain-unedited-statement-changed"
            mon.append({"cls": cls, "what": f"{label}: lines of the code records that do not express {sorted(edited)} were not preserved "
                        f"exactly and in order; lost or moved: {lost[:4]!r}; " + first_diff(prev_code, code)})
        o_ns, n_ns = [x for x in old_lines if _is_nonstmt_line(x)], [x for x in new_lines if _is_nonstmt_line(x)]
        if o_ns != n_ns and _is_subseq(o_ns, n_ns) is True and len(n_ns) > len(o_ns):
            mon.append({"cls": "chain-nonstatement-line-added", "what": f"{label}: comment / verbatim / blank lines were added: "
                        f"{len(o_ns)} -> {len(n_ns)}; " + first_diff(prev_code, code)})
        for nm in sorted(edited):
            cnt = sum(1 for ln in new_lines if _expresses(ln, {nm}))
            want = 0 if nm in gone else 1
            stale = [ln for ln in new_lines if _expresses(ln, {nm}) and ln in old_lines and nm not in added]
            if cnt != want or (stale and nm not in gone):
                mon.append({"cls": "chain-stale-or-duplicate-statement",
                            "what": f"{label}: {cnt} line(s) assign {nm} after the edit (expected {want}); stale old line(s): {stale!r}; "
                                    + first_diff(prev_code, code)})
        model, prev_recs, prev_code = model2, new_recs, code
    if done >= 2:
        tags.append("chain-2+steps")
    return {"k": k, "mon": mon + rec_mon, "tags": tags, "nontrivial": done >= 2}
