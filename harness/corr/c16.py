"""C16 — Model database and run context are atomic and faithful, even across crashes.

K   : (a) the crash-free operation log of the real API (file-system fault
      injector of c16_util, no pharmpy source change) against the operation
      program of the Lean model, call by call, with outcomes;
      (b) for every crash point (and torn variants of every content write) of
      the workload: the directory tree left behind against the model's crash
      state, and the outcome of every probe (retrieve of every key / name,
      store of every pool model followed by retrieve, log read, log append)
      run with fresh objects on a copy of the crashed tree against the
      model's prediction;
      (c) the text formats (mangle / pandas.read_csv, annotation lines)
      against `readLog`, `storeAnnotationText`, `retrieveAnnotationText`.
Mon : the property statement on the real code: nothing partial is visible,
      committed entries stay retrievable and faithful, later stores succeed
      and are faithful, log messages come back in order and verbatim,
      annotations come back verbatim.
"""
from __future__ import annotations

import hashlib
import json
import os
import random
import shutil

ID = "C16"
DRIVER = "drv_c16"
LEAN_TARGETS = ["PharmpyProofs.C16.Properties", "drv_c16"]
PROPERTIES = ["PharmpyProofs/C16/Properties.lean"]
LEAN_SOURCES = ["PharmpyModel/C16/*.lean", "PharmpyProofs/C16/*.lean", "Drivers/C16.lean"]
TIME_LIMIT = {"quick": 900, "thorough": 3000}
CASE_CPU_LIMIT = 240
RULE = ("workloads of 1-4 store calls (Context.store_model_entry, db.store_model_entry, db.store_metadata) over a pool of 9 "
        "model entries (A, A2 = A renamed, AR = A with results, B sharing A's dataset, BR = B with results, AL = A with an entry "
        "log but no results, C other dataset with equal datainfo, D = A's dataset with another datainfo, E = A's name with "
        "another model); the results of AR/BR and the entry AL carry logs generated per case: 0-30 messages (lengths biased to "
        "0,1,2,9,10,11,12,13,19,20,21,30) of the awkward texts below; interleaved with 0-3 log messages and "
        "annotations from a generator biased to quotes, commas, newlines, NA strings, empty, numerals, unicode; EVERY crash "
        "point of the operation trace is visited (operation k does not happen) plus torn variants (empty, half, all but one "
        "character) of every content write, and every such point again as an EXCEPTION fault (the operation raises OSError, "
        "pharmpy's finally/__exit__ code runs); each case is one workload and one residue class of points; 'text' cases "
        "are 40 generated strings each. non-trivial = at least one store and one crash point; distinct = distinct case JSON")
TRUSTED = [
    "Lean 4.33 kernel; axioms propext, Quot.sound, Classical.choice only (audited per theorem each run)",
    "hand-written model PharmpyModel/C16/{FS,DB,Ctx,Text,Workload}.lean tied to local_directory.py (database and context) by the "
    "correspondence run of this invocation",
    "harness/corr/c16_util.py: the fault injector (os.mkdir/open/unlink/symlink/rename/replace/rmdir, builtins.open, io.open) "
    "and the assumption that pharmpy closes a file before its next file-system call (checked: the tree rebuilt from the "
    "log equals the real tree after every crash-free run)",
    "a crash is process death between two file-system operations, operations take effect in issue order; a torn write leaves "
    "a prefix of the text (power-loss reordering of unsynced writes is outside); an exception fault is OSError(ENOSPC) raised "
    "by the operation (by fh.write() after the torn prefix for content writes), after which the code's own cleanup runs",
    "the expensive parse of an unchanged (model file, dataset, datainfo, results) content tuple is memoised per worker; the "
    "snapshot/PENDING check and every store always run for real",
    "pool models are fixed points of NONMEM code generation + parsing (normalised by one store/retrieve round trip), so "
    "equality of retrieved and stored models is meaningful; what that round trip itself preserves is C01/C02/C13",
]
ASSUMPTIONS = [
    "file contents of database files are abstracted to tokens (dataset, datainfo identity + data file, model text identity + "
    "data reference, results identity); a strict prefix of a token's text never parses as complete in the model",
    "pandas numeric/boolean dtype inference of the message column is not modelled: logs whose messages are all numerals are "
    "compared by the monitor only",
]

POOL_IDS = ["A", "A2", "AR", "B", "C", "D", "E", "BR", "AL"]
LOG_IDS = ["AR", "BR", "AL"]     # entries that carry a log (AR, BR inside their results; AL without results)
LOG_LENGTHS = [0, 1, 2, 3, 9, 10, 11, 12, 13, 19, 20, 21, 30]
DATE = "2026-01-02 03:04:05.000006"


def budget(tier):
    return int(os.environ.get("VERIF_BUDGET", 0)) or {"quick": 8, "thorough": 90}[tier]


# ---------------------------------------------------------------- generation

MSG_ATOMS = ["NA", "", "nan", "None", "null", "N/A", "1", "1.50", "true", "ok", "he said \"hi\"", "a,b", "line1\nline2",
             "\"", "\"\"", "x\r\ny", " lead", "trail ", "é∂", "tab\there", ",", "\n", "#N/A", "Potential disaster", "a\"b,c\nd"]
ANN_ATOMS = ["plain text", "", "two  blanks", "line1\nline2", "cr\rhere", " lead", "trail ", "é∂", "mA x", "\n", "a b c"]


def gen_msg(rng):
    r = rng.random()
    if r < 0.55:
        return rng.choice(MSG_ATOMS)
    if r < 0.8:
        return rng.choice(MSG_ATOMS) + rng.choice([" ", "", ",", "\""]) + rng.choice(MSG_ATOMS)
    return "".join(rng.choice("ab \",\nN1.é") for _ in range(rng.randint(0, 8)))


def gen_ann(rng):
    r = rng.random()
    if r < 0.7:
        return rng.choice(ANN_ATOMS)
    return "".join(rng.choice("ab \n\rx") for _ in range(rng.randint(0, 8)))


def gen_rlog(rng, minlen=0):
    """The log of a stored entry: 0..30 messages with awkward text."""
    n = rng.choice(LOG_LENGTHS) if rng.random() < 0.7 else rng.randint(0, 30)
    n = max(n, minlen)
    return [[rng.choice(["ERROR", "WARNING", "INFORMATION"]),
             (f"#{i} " if rng.random() < 0.7 else "") + gen_msg(rng)] for i in range(n)]


def gen_rlogs(rng):
    return {"AR": gen_rlog(rng), "BR": gen_rlog(rng), "AL": gen_rlog(rng, 1)}


def gen_workload(rng):
    calls = []
    nstore = rng.randint(1, 4)
    for _ in range(nstore):
        r = rng.random()
        mid = rng.choice(POOL_IDS)
        if r < 0.6:
            calls.append(["ctx-store", mid])
        elif r < 0.9:
            calls.append(["db-store", mid])
        else:
            calls.append(["db-meta", mid, "md%d" % rng.randint(1, 2)])
    for _ in range(rng.randint(0, 3)):
        pos = rng.randint(0, len(calls))
        if rng.random() < 0.65:
            calls.insert(pos, ["log", rng.choice(["info", "warning", "error"]), gen_msg(rng)])
        else:
            calls.insert(pos, ["ann", rng.choice(["mA", "mB", "mC", "zz"]), gen_ann(rng)])
    return calls


def gen_cases(rng, n, tier):
    out = []
    nchunks = 4
    for i in range(n):
        if i % 7 == 6:
            out.append({"kind": "text", "msgs": [gen_msg(rng) for _ in range(40)], "anns": [gen_ann(rng) for _ in range(40)],
                        "rlogs": [gen_rlog(rng) for _ in range(12)], "seed": rng.randrange(1 << 30)})
            continue
        calls = gen_workload(rng)
        seed = rng.randrange(1 << 30)
        rlogs = gen_rlogs(rng)
        for c in range(nchunks):
            out.append({"kind": "crash", "calls": calls, "rlogs": rlogs, "chunk": c, "nchunks": nchunks, "seed": seed})
    return out


def corpus_cases():
    W = lambda calls: {"kind": "crash", "calls": calls, "seed": 1}
    out = []
    for c in _corpus(W):
        if c["kind"] == "crash":
            for i in range(3):      # three residue classes of crash points each: shorter cases
                out.append(dict(c, chunk=i, nchunks=3))
        else:
            out.append(c)
    return out


def _corpus(W):
    return [
        # F5: crash inside the first store of a dataset, then a model sharing it
        W([["db-store", "A"], ["db-store", "B"]]),
        # re-store of a committed key (results for it; another name)
        W([["ctx-store", "A"], ["ctx-store", "AR"]]),
        # name bound to another key
        W([["ctx-store", "A"], ["ctx-store", "E"]]),
        # annotation / log rewriting
        W([["ctx-store", "A"], ["log", "info", "he said \"hi\", ok\nline2"], ["ctx-store", "C"], ["log", "error", "NA"]]),
        W([["ctx-store", "D"], ["ann", "mA", "line1\nline2"], ["db-store", "A"]]),
        # entries whose logs have more than ten messages (through results.json), one log without results
        dict(W([["ctx-store", "AR"], ["ctx-store", "BR"], ["db-store", "AL"]]),
             rlogs={"AR": [["WARNING" if i % 2 else "ERROR", f"A: message number {i}, \"q\", commas"] for i in range(12)],
                    "BR": [["INFORMATION", m] for m in MSG_ATOMS], "AL": [["ERROR", "only in the entry"]]}),
        {"kind": "text", "msgs": MSG_ATOMS, "anns": ANN_ATOMS, "seed": 2,
         "rlogs": [[["ERROR", f"m{i}"] for i in range(n)] for n in LOG_LENGTHS]},
    ]


def shrink(case):
    if case.get("kind") != "crash":
        # text case: one entry log at a time, then shorter logs, without the other material
        rl = case.get("rlogs", [])
        if len(rl) > 1 or case.get("msgs") or case.get("anns"):
            for lg in rl:
                yield {"kind": "text", "msgs": [], "anns": [], "rlogs": [lg], "seed": case["seed"]}
        elif len(rl) == 1 and len(rl[0]) > 1:
            for n in (len(rl[0]) // 2, len(rl[0]) - 1):
                yield dict(case, rlogs=[rl[0][:n]])
        return
    calls = case["calls"]
    base = {k: v for k, v in case.items() if not k.startswith("_")}
    if "only" not in case and "_fail_points" not in case:
        # evaluate once in this process to learn the failing points
        yield {**base, "chunk": 0, "nchunks": 1}
    pts = []
    for pt in list(case.get("_fail_points", {}).values()) + [case.get("_fail_point")]:
        if pt is not None and pt not in pts:
            pts.append(pt)
    if "only" not in case and [0, None] in pts:
        # a failure that needs no fault: keep a single (trivial) fault point, everything else gets cheap
        yield {**base, "only": [0, None]}
    faultless = case.get("only") == [0, None]
    for i in range(len(calls)):
        if len(calls) > 1:
            c = dict(base)
            c["calls"] = calls[:i] + calls[i + 1:]
            c["chunk"], c["nchunks"] = 0, 1
            if not faultless:
                c.pop("only", None)
            yield c
    if "only" not in case:
        for pt in pts:
            if pt != [0, None]:
                yield {**base, "only": pt}
    if "only" in case:
        for pid, lg in case.get("rlogs", {}).items():
            if len(lg) > 1:
                for n in (0, len(lg) // 2, len(lg) - 1):
                    yield {**base, "rlogs": dict(case["rlogs"], **{pid: lg[:n]})}


# ---------------------------------------------------------------- real-code side

G = {}


def _tr(x, a, b):
    if isinstance(x, (list, tuple)):
        return [_tr(y, a, b) for y in x]
    return x.replace(a, b) if isinstance(x, str) else x


class Drv:
    """Driver proxy: carriage returns travel as U+E00D (answers are read line by line with universal newlines)."""

    def __init__(self, drv):
        self.drv = drv

    def ask(self, req):
        return _tr(self.drv.ask(_tr(req, "\r", "\ue00d")), "\ue00d", "\r")


def worker_init():
    import warnings
    warnings.filterwarnings("ignore")
    import pandas as pd
    import pharmpy  # noqa
    from pharmpy.modeling import convert_model, create_basic_pk_model, set_dataset, set_initial_estimates
    from pharmpy.workflows import LocalDirectoryContext, LocalModelDirectoryDatabase, ModelEntry, ModelfitResults
    from pharmpy.workflows.hashing import DatasetHash, ModelHash
    from harness.common.paths import scratch_root
    from harness.corr import c16_util

    G.update(pd=pd, LocalDirectoryContext=LocalDirectoryContext, LocalModelDirectoryDatabase=LocalModelDirectoryDatabase,
             ModelEntry=ModelEntry, ModelHash=ModelHash, DatasetHash=DatasetHash, util=c16_util, memo={})
    root = scratch_root() / "c16"
    shutil.rmtree(root, ignore_errors=True)
    root.mkdir(parents=True)
    G["root"] = root
    _sweep_dead_scratch(root.parent.parent)
    df1 = pd.DataFrame({'ID': [1, 1, 2, 2], 'TIME': [0., 1., 0., 1.], 'AMT': [10., 0, 10., 0], 'DV': [0., 3., 0., 4.]})
    df2 = pd.DataFrame({'ID': [1, 1, 2, 2], 'TIME': [0., 2., 0., 2.], 'AMT': [20., 0, 20., 0], 'DV': [0., 5., 0., 6.]})
    base = create_basic_pk_model('iv')

    def mk(df, f=None, di=None):
        m = set_dataset(base, df, datatype='nonmem')
        if f:
            m = f(m)
        m = convert_model(m, 'nonmem')
        if di:
            m = m.replace(datainfo=di(m.datainfo))
        return m

    raw = {
        "A": mk(df1), "B": mk(df1, lambda m: set_initial_estimates(m, {'POP_CL': 0.02})), "C": mk(df2),
        "D": mk(df1, None, lambda di: di.set_column(di['DV'].replace(unit='mg'))),
        "E": mk(df1, lambda m: set_initial_estimates(m, {'POP_VC': 2.0})),
    }
    names = {"A": ("mA", "Model A"), "B": ("mB", "Model B"), "C": ("mC", "Model C"), "D": ("mD", "Model D"),
             "E": ("mA", "Model E")}
    norm = {}
    for k, m in raw.items():
        db = LocalModelDirectoryDatabase(root / "norm" / k)
        m = m.replace(name=names[k][0], description=names[k][1])
        db.store_model(m)
        r = db.retrieve_model(m).replace(name=names[k][0])
        db2 = LocalModelDirectoryDatabase(root / "norm" / (k + "fp"))
        db2.store_model(r)
        r2 = db2.retrieve_model(r).replace(name=names[k][0])
        if not (r2 == r and r2.dataset.equals(r.dataset) and str(ModelHash(r2)) == str(ModelHash(r))):
            raise RuntimeError(f"pool model {k} is not a fixed point of store/retrieve")
        norm[k] = r
    from pharmpy.workflows import Log
    from pharmpy.workflows.log import LogEntry
    from pharmpy.workflows.results import read_results
    G.update(Log=Log, LogEntry=LogEntry, ModelfitResults=ModelfitResults, read_results=read_results, norm=norm)
    pool = {k: ModelEntry.create(m) for k, m in norm.items()}
    pool["A2"] = ModelEntry.create(norm["A"].replace(name="mA2", description="Model A again"))
    G["pool"] = pool
    set_case_pool({})
    # labels
    keys, dhs, dis, structs = {}, {}, [], []
    desc = {}
    for pid in POOL_IDS:
        me = pool[pid]
        h = ModelHash(me.model)
        keys.setdefault(str(h), "K%d" % (len(keys) + 1))
        dhs.setdefault(h.dataset_hash, "H%d" % (len(dhs) + 1))
        if not any(me.model.datainfo == d for d in dis):
            dis.append(me.model.datainfo)
        st = (me.model.parameters, me.model.random_variables, me.model.statements)
        if not any(st == s for s in structs):
            structs.append(st)
    G.update(keys=keys, dhs=dhs, dis=dis, structs=structs)
    for pid in POOL_IDS:
        desc[pid] = mdesc(pid)
    G["desc"] = desc


OFV = {"AR": 12.5, "BR": 7.25}


def make_log(entries):
    import datetime
    t0 = datetime.datetime(2026, 1, 2, 3, 4, 5)
    return G["Log"](tuple(G["LogEntry"](category=c, message=m, time=t0 + datetime.timedelta(microseconds=i))
                          for i, (c, m) in enumerate(entries)))


def describe_log(log):
    return None if log is None else [[e.category, e.message, e.time.isoformat()] for e in log]


def set_case_pool(rlogs):
    """The pool entries that carry a log are rebuilt for every case from the case's generated logs."""
    pd, ME, MR, norm = G["pd"], G["ModelEntry"], G["ModelfitResults"], G["norm"]
    pe = pd.Series({'POP_CL': 0.01, 'POP_VC': 1.0})
    pool = G["pool"]
    pool["AR"] = ME.create(norm["A"], modelfit_results=MR(ofv=OFV["AR"], parameter_estimates=pe, log=make_log(rlogs.get("AR", []))))
    pool["BR"] = ME.create(norm["B"], modelfit_results=MR(ofv=OFV["BR"], parameter_estimates=pe, log=make_log(rlogs.get("BR", []))))
    pool["AL"] = ME.create(norm["A"], log=make_log(rlogs.get("AL", [["ERROR", "only in the entry"]])))


def _sweep_dead_scratch(base):
    """Pool workers are terminated, not exited: remove the C16 scratch of workers that are gone."""
    for d in base.glob("pharmpy-verif-*"):
        try:
            pid = int(d.name.rsplit("-", 1)[1])
            os.kill(pid, 0)
        except (ValueError, PermissionError):
            continue
        except ProcessLookupError:
            shutil.rmtree(d / "c16", ignore_errors=True)
            try:
                d.rmdir()
            except OSError:
                pass


def di_label(di):
    for i, d in enumerate(G["dis"]):
        if d == di:
            return "D%d" % (i + 1)
    return "D?"


def struct_label(m):
    st = (m.parameters, m.random_variables, m.statements)
    for i, s in enumerate(G["structs"]):
        if st == s:
            return "S%d" % (i + 1)
    return "S?"


def mdesc(pid):
    me = G["pool"][pid]
    h = G["ModelHash"](me.model)
    return {"key": G["keys"][str(h)], "dh": G["dhs"][h.dataset_hash], "di": di_label(me.model.datainfo),
            "code": struct_label(me.model) + ":" + me.model.description, "ext": "ctl",
            "res": ("R1" if me.modelfit_results.ofv == OFV["AR"] else "R2") if me.modelfit_results is not None else "none",
            "digest": str(h), "name": me.model.name, "descr": me.model.description,
            # what the key must identify, computed without ModelHash: structure, data values, datainfo
            "content": [struct_label(me.model), str(G["DatasetHash"](me.model.dataset)), di_label(me.model.datainfo)]}


def md_sexp(d):
    return [d["key"], d["dh"], d["di"], d["code"], d["ext"], d["res"]]


def model_call(call):
    """The driver request for a harness call."""
    k = call[0]
    D = G["desc"]
    if k == "init":
        return ["init"]
    if k == "ctx-store":
        d = D[call[1]]
        return ["ctx-store", d["name"], d["descr"], md_sexp(d)]
    if k == "ctx-store-as":      # pool entry call[1] stored under the name call[2]
        d = D[call[1]]
        return ["ctx-store", call[2], d["descr"], md_sexp(d)]
    if k == "db-store":
        return ["db-store-entry", md_sexp(D[call[1]])]
    if k == "db-meta":
        return ["db-store-metadata", D[call[1]]["key"], call[2]]
    if k == "log":
        return ["store-message", "ctx", DATE, call[1], call[2]]
    if k == "ann":
        return ["store-annotation", call[1], call[2]]
    if k == "db-retrieve":
        return ["db-retrieve", call[1]]
    if k == "ctx-retrieve":
        return ["ctx-retrieve", call[1]]
    if k == "retrieve-log":
        return ["retrieve-log"]
    raise ValueError(k)


def err(e):
    return ["err", type(e).__name__]


def digest_of_label(klabel):
    for dg, lab in G["keys"].items():
        if lab == klabel:
            return dg
    raise KeyError(klabel)


def file_text(p):
    try:
        with open(p, "r", newline="", errors="replace") as fh:
            return fh.read()
    except (FileNotFoundError, IsADirectoryError, NotADirectoryError):
        return None


def entry_of(me, dbpath):
    """Canonical view of a retrieved ModelEntry."""
    m = me.model
    p = m.datainfo.path
    inside = p is not None and str(os.path.realpath(p)).startswith(str(os.path.realpath(dbpath)) + os.sep)
    if inside:
        ds = G["dhs"].get(str(G["DatasetHash"](m.dataset)), "H?")
        di = di_label(m.datainfo)
    else:
        ds, di = "none", "none"
    res = "none"
    if me.modelfit_results is not None:
        ofv = getattr(me.modelfit_results, "ofv", None)
        res = "R1" if ofv == OFV["AR"] else "R2" if ofv == OFV["BR"] else "R?"
    return ["entry", struct_label(m) + ":" + m.description, ds, di, res]


def retrieve_entry_memo(db, sn, digest):
    """sn.retrieve_model_entry() with the parse memoised on the exact file contents it can depend on."""
    kd = db.path / digest
    parts = []
    for rel in ("model.mod", "model.ctl", ".pharmpy/results.json"):
        parts.append(file_text(kd / rel))
    dsd = db.path / ".datasets"
    if dsd.is_dir():
        for f in sorted(os.listdir(dsd)):
            if f.startswith("data"):
                parts.append((f, file_text(dsd / f)))
    key = hashlib.sha256(json.dumps(parts).encode()).hexdigest()
    memo = G["memo"]
    if key not in memo:
        try:
            me = sn.retrieve_model_entry()
            memo[key] = ("ok", me, entry_of(me, db.path))
        except Exception as e:  # noqa
            memo[key] = ("err", e, None)
    return memo[key]


def real_db_retrieve(ctxroot, digest):
    """(canonical outcome, ModelEntry or None) of db.retrieve_model_entry with fresh objects."""
    db = G["LocalModelDirectoryDatabase"](ctxroot / "ctx" / ".modeldb")
    try:
        with db.snapshot(G["ModelHash"](digest)) as sn:
            st, val, ent = retrieve_entry_memo(db, sn, digest)
            if st == "err":
                raise val
            return ["ok", ent], val
    except Exception as e:  # noqa
        return err(e), None


def real_call(ctxroot, call):
    """Run one harness call on the real API with fresh objects. Returns canonical outcome (+ object)."""
    k = call[0]
    LDC = G["LocalDirectoryContext"]
    pool = G["pool"]
    try:
        if k == "init":
            LDC("ctx", ctxroot)
            return ["ok"], None
        ctx = LDC("ctx", ctxroot)
        db = ctx.model_database
        if k == "ctx-store":
            ctx.store_model_entry(pool[call[1]])
            return ["ok"], None
        if k == "ctx-store-as":
            me = pool[call[1]]
            ctx.store_model_entry(G["ModelEntry"].create(me.model.replace(name=call[2]), modelfit_results=me.modelfit_results))
            return ["ok"], None
        if k == "db-store":
            db.store_model_entry(pool[call[1]])
            return ["ok"], None
        if k == "db-meta":
            db.store_metadata(pool[call[1]].model, {"tag": call[2]})
            return ["ok"], None
        if k == "log":
            ctx.store_message(call[1], "ctx", DATE, call[2])
            return ["ok"], None
        if k == "ann":
            ctx.store_annotation(call[1], call[2])
            return ["ok"], None
        if k == "db-retrieve":
            return real_db_retrieve(ctxroot, digest_of_label(call[1]))
        if k == "ctx-retrieve":
            name = call[1]
            key = ctx.retrieve_key(name)
            out, me = real_db_retrieve(ctxroot, str(key))
            if out[0] == "err":
                return out, None
            ann = ctx.retrieve_annotation(name)
            model = me.model.replace(name=name, description=ann)
            return ["ok", out[1], ann], (me, model)
        if k == "retrieve-log":
            df = ctx.retrieve_log()
            return ["ok", log_canon(df)], df
    except Exception as e:  # noqa
        return err(e), None
    raise ValueError(k)


def log_canon(df):
    pd = G["pd"]
    out = []
    for v in df["message"]:
        if isinstance(v, float) and pd.isna(v):
            out.append([])
        else:
            out.append([v if isinstance(v, str) else ["retyped", type(v).__name__, str(v)]])
    return out


# ---------------------------------------------------------------- canonical trees and logs

def canon_path(r):
    parts = r.split("/")
    out = []
    for p in parts:
        out.append(G["keys"].get(p) or G["dhs"].get(p) or p)
    return "/".join(out)


def canon_log_entry(e):
    e = list(e)
    e[1] = canon_path(e[1])
    if e[0] == "symlink":
        # relative target -> path from the root
        link_parent = os.path.dirname(e[1])
        e[2] = canon_path(os.path.normpath(os.path.join(link_parent, e[2])).replace(os.sep, "/"))
    return e


def real_tree(root):
    t = G["util"].tree(root)
    out = {}
    for r, n in t.items():
        c = canon_path(r)
        if isinstance(n, list) and n[0] == "link":
            tgt = os.path.normpath(os.path.join(os.path.dirname(r), n[1])).replace(os.sep, "/")
            out[c] = ["link", canon_path(tgt)]
        else:
            out[c] = n
    return out


class ContentMap:
    """Bijection between model content tokens and real file texts, learnt from the crash-free run."""

    def __init__(self):
        self.tok2text = {}
        self.text2tok = {}

    def learn(self, tok, text):
        t = json.dumps(tok)
        if self.tok2text.setdefault(t, text) != text:
            return f"model token {tok} stands for two different real contents"
        if self.text2tok.setdefault(text, t) != t:
            return f"one real content stands for model tokens {self.text2tok[text]} and {t}"
        return None

    def expand(self, c):
        """Model content -> expected real text (None: unknown token)."""
        if c[0] == "text":
            return c[1]
        t = self.tok2text.get(json.dumps(c[1]))
        if t is None:
            return None
        return t if c[0] == "full" else t[:int(c[2])]


def model_tree(drv, cmap):
    t = drv.ask(["tree"])
    out = {}
    for p, n in t:
        if n == "dir":
            out[p] = "dir"
        elif n[0] == "link":
            out[p] = ["link", n[1]]
        else:
            out[p] = ["file", cmap.expand(n[1])]
    return out


def diff_trees(rt, mt):
    d = []
    for p in sorted(set(rt) | set(mt)):
        a, b = rt.get(p), mt.get(p)
        if a != b:
            sa = a if a is None or a == "dir" else [a[0], (a[1] or "")[:40] if a[1] is not None else None]
            sb = b if b is None or b == "dir" else [b[0], (b[1] or "")[:40] if b[1] is not None else None]
            d.append(f"{p}: code {sa} model {sb}")
    return d


def compare_ops(real_ops, model_ops, cmap):
    """Crash-free: same operations in the same order; contents up to the learnt bijection."""
    k = []
    if len(real_ops) != len(model_ops):
        k.append(f"operation count: code {len(real_ops)} model {len(model_ops)}: code {[o[:2] for o in real_ops]} "
                 f"model {[o[:2] for o in model_ops]}")
        return k
    for ro, mo in zip(real_ops, model_ops):
        if ro[0] != mo[0] or ro[1] != mo[1]:
            k.append(f"operation: code {ro[:2]} model {mo[:2]}")
            continue
        if ro[0] == "write":
            c = mo[2]
            if c[0] == "text":
                if c[1] != ro[2]:
                    k.append(f"write {ro[1]}: code {ro[2][:60]!r} model {c[1][:60]!r}")
            else:
                e = cmap.learn(c[1], ro[2])
                if e:
                    k.append(f"write {ro[1]}: {e}")
        elif ro[0] == "append":
            if mo[2] != ro[2]:
                k.append(f"append {ro[1]}: code {ro[2][:60]!r} model {mo[2][:60]!r}")
        elif ro[0] == "symlink":
            if mo[2] != ro[2]:
                k.append(f"symlink {ro[1]}: code -> {ro[2]} model -> {mo[2]}")
    return k


# ---------------------------------------------------------------- the case runner

def fresh_dir(tag):
    d = G["root"] / f"w{os.getpid()}-{tag}"
    shutil.rmtree(d, ignore_errors=True)
    d.mkdir(parents=True)
    return d


def same_entry(me, model, pid, check_name):
    """Fidelity of a retrieved entry against pool entry `pid` (what the property lists)."""
    want = G["pool"][pid]
    bad = []
    wm = want.model
    if (model.parameters, model.random_variables, model.statements) != (wm.parameters, wm.random_variables, wm.statements):
        bad.append("model function/parameters")
    if model.dataset is None or not model.dataset.equals(wm.dataset):
        bad.append("dataset")
    if model.datainfo != wm.datainfo:
        bad.append("datainfo")
    if check_name:
        if model.name != wm.name:
            bad.append("name")
        if model.description != wm.description:
            bad.append("description")
    if (me.modelfit_results is None) != (want.modelfit_results is None):
        bad.append("results present")
    elif want.modelfit_results is not None and me.modelfit_results.ofv != want.modelfit_results.ofv:
        bad.append("results")
    return bad


def run_case(case, drv):
    if drv is not None:
        drv = Drv(drv)
    if case["kind"] == "text":
        return run_text_case(case, drv)
    return run_crash_case(case, drv)


def log_fidelity(me, pids):
    """The clause 'log messages in order and verbatim' for a retrieved entry, against the entries `pids` stored under
    its key (in store order).  results.json is rewritten by every store that has results."""
    pool = G["pool"]
    with_res = [p for p in pids if pool[p].modelfit_results is not None]
    if with_res:
        want = describe_log(pool[with_res[-1]].modelfit_results.log)
        for label, log in (("modelfit_results.log", getattr(me.modelfit_results, "log", None)), ("ModelEntry.log", me.log)):
            got = describe_log(log)
            if got != want:
                first = next((i for i, (a, b) in enumerate(zip(got or [], want)) if a != b), min(len(got or []), len(want)))
                return {"cls": "entry-log-not-verbatim",
                        "what": f"{label} of entry {with_res[-1]} ({len(want)} messages) comes back "
                                f"{'as None' if got is None else f'with {len(got)} messages, first difference at position {first}'}: "
                                f"stored {[m for _, m, _ in want][:14]} retrieved {None if got is None else [m for _, m, _ in got][:14]}"}
        return None
    with_log = [p for p in pids if pool[p].log is not None]
    if with_log and describe_log(me.log) != describe_log(pool[with_log[-1]].log):
        return {"cls": "entry-log-without-results-dropped",
                "what": f"entry {with_log[-1]} was stored with a log of {len(pool[with_log[-1]].log)} messages and no results; "
                        f"retrieved ModelEntry.log is {describe_log(me.log)}"}
    return None


def k_result_log(root, digest, pid, me, drv):
    """K for the entry log: the JSON object written for it, and what reading makes of that object."""
    k = []
    want = describe_log(G["pool"][pid].modelfit_results.log)
    text = file_text(root / "ctx" / ".modeldb" / digest / ".pharmpy" / "results.json")
    if text is None:
        return [f"results.json of {pid} missing"]
    top = json.loads(text, object_pairs_hook=lambda ps: ps)
    logobj = dict((a, b) for a, b in top).get("log")
    if logobj is None:
        return [f"results.json of {pid} has no log object"]
    pairs = []
    for key, v in logobj:
        if isinstance(v, list):
            dv = dict(v)
            pairs.append([key, ["entry", [dv.get("category"), dv.get("message"), dv.get("time")]]])
        else:
            pairs.append([key, ["str", v]])
    enc = drv.ask(["log-encode", want])
    if enc != pairs:
        k.append(f"results.json log object of {pid}: code keys {[p[0] for p in pairs][:14]} model keys {[p[0] for p in enc][:14]}"
                 + ("" if [p[0] for p in pairs] != [p[0] for p in enc] else " (values differ)"))
    dec = drv.ask(["log-decode", pairs])
    got = describe_log(getattr(me.modelfit_results, "log", None))
    mdl = dec[1] if dec[0] == "ok" else None
    if mdl != got:
        k.append(f"log read back from results.json of {pid}: code {None if got is None else [m for _, m, _ in got][:14]} "
                 f"model {None if mdl is None else [m for _, m, _ in mdl][:14]}")
    return k


def run_crash_case(case, drv):
    set_case_pool(case.get("rlogs", {}))
    util = G["util"]
    D = G["desc"]
    k, mon, tags = [], [], []
    calls = [["init"]] + [list(c) for c in case["calls"]]
    tags += ["call:" + c[0] for c in calls[1:]]
    tags.append("ncalls=%d" % (len(calls) - 1))

    # ---------- crash-free run: operation log per call, outcomes
    root = fresh_dir("ref")
    per_call = []
    real_out = []
    with util.Injector(root) as inj:
        for c in calls:
            n0 = len(inj.log)
            out, _ = real_call(root, c)
            inj.flush()
            per_call.append([canon_log_entry(e) for e in inj.log[n0:]])
            real_out.append(out)
        if inj.outside:
            k.append(f"writes outside the root: {inj.outside[:3]}")
    flat = [e for ops in per_call for e in ops]
    bounds = []
    n = 0
    for ops in per_call:
        bounds.append((n, n + len(ops)))
        n += len(ops)
    tags.append("ops=%d0s" % (len(flat) // 10))
    cmap = ContentMap()
    if drv is not None:
        drv.ask(["reset"])
        for c, ops, out in zip(calls, per_call, real_out):
            ans = drv.ask(["call", model_call(c)])
            if ans and ans[0] == "err":
                raise RuntimeError(f"driver rejected {model_call(c)}: {ans}")
            mops, mout = ans
            k += [f"{c[:2]}: {x}" for x in compare_ops(ops, mops, cmap)]
            if mout != out:
                k.append(f"{c[:2]} outcome: code {out} model {mout}")
        d = diff_trees(real_tree(root), model_tree(drv, cmap))
        if d:
            k.append(f"crash-free final tree: {d[:4]}")
    # self-check of the injector: the log replayed on an empty directory gives the real tree
    rep = replay_tree(flat)
    rt = real_tree(root)
    if rep != rt:
        raise RuntimeError(f"fault injector log does not reproduce the tree: {diff_trees(rt, rep)[:4]}")

    # ---------- crash-free fidelity monitors + read calls (K)
    names_in = []   # (name, pid) in store order
    stored = []     # pids stored through any call, in order
    for c in calls:
        if c[0] == "ctx-store":
            names_in.append((D[c[1]]["name"], c[1]))
            stored.append(c[1])
        elif c[0] == "db-store":
            stored.append(c[1])
    mon += fidelity_monitors(root, calls, real_out, stored, names_in, tags, crashed=None)
    crashfree_classes = {m["cls"] for m in mon}
    if drv is not None:
        reads = [["db-retrieve", D[p]["key"]] for p in sorted(set(stored))]
        reads += [["ctx-retrieve", nm] for nm in sorted({nm for nm, _ in names_in} | {"zz"})]
        reads += [["retrieve-log"]]
        k += compare_reads(root, reads, drv, tags)
        by_key = {}
        for p in stored:
            by_key.setdefault(D[p]["key"], []).append(p)
        for key, pids in by_key.items():
            with_res = [p for p in pids if G["pool"][p].modelfit_results is not None]
            if with_res:
                out, me = real_call(root, ["db-retrieve", key])
                if out[0] == "ok" and me.modelfit_results is not None:
                    k += k_result_log(root, D[with_res[-1]]["digest"], with_res[-1], me, drv)
                    tags.append("entry-log-len=%d" % len(G["pool"][with_res[-1]].modelfit_results.log))

    # ---------- every crash point
    points = []
    for j in range(len(flat)):
        points.append((j, None))
        if flat[j][0] in ("write", "append"):
            L = len(flat[j][2])
            for t in sorted({0, L // 2, L - 1}):
                if 0 <= t < L:
                    points.append((j, t))
    if "only" in case:
        points = [tuple(case["only"])]
    else:
        points = [p for i, p in enumerate(points) if i % case["nchunks"] == case["chunk"]]
    fail_point = None
    fail_points = {}
    for (j, t) in points:
        ci = next(i for i, (a, b) in enumerate(bounds) if a <= j < b)
        croot = fresh_dir("crash")
        crashed = False
        with util.Injector(croot, crash_at=j, torn=t) as inj:
            try:
                for c in calls:
                    real_call_raw(croot, c)
                    inj.flush()
            except util.Crash:
                crashed = True
        if not crashed:
            raise RuntimeError(f"crash point {j} was not reached (log {len(inj.log)})")
        got = [canon_log_entry(e[:3]) for e in inj.log]
        want = flat[:j] + ([[flat[j][0], flat[j][1], flat[j][2][:t]]] if t is not None else [])
        if got != want:
            k.append(f"crash {j}/{t}: operations before the crash differ from the crash-free prefix")
        tags.append("crash-in:" + calls[ci][0])
        tags.append("torn" if t is not None else "cut")
        crash_tree = real_tree(croot)
        init_crash = calls[ci][0] == "init"
        # model crash state
        if drv is not None:
            drv.ask(["reset"])
            for c in calls[:ci]:
                drv.ask(["call", model_call(c)])
            ans = drv.ask(["crash", model_call(calls[ci]), j - bounds[ci][0], "none" if t is None else t])
            if ans[0] != "ok":
                k.append(f"crash {j}/{t}: driver {ans}")
                continue
            d = diff_trees(real_tree(croot), model_tree(drv, cmap))
            if d:
                k.append(f"crash {j}/{t} in {calls[ci][:2]}: tree {d[:3]}")
        if init_crash:
            # context creation interrupted: re-opening completes it (tree compared again), nothing was stored yet
            o, _ = real_call(croot, ["init"])
            if drv is not None:
                ans = drv.ask(["call", ["init"]])
                if ans[1] != o:
                    k.append(f"crash {j}/{t} in init: reopening: code {o} model {ans[1]}")
                d = diff_trees(real_tree(croot), model_tree(drv, cmap))
                if d:
                    k.append(f"crash {j}/{t} in init, reopened: tree {d[:3]}")
            shutil.rmtree(croot, ignore_errors=True)
            continue
        kk, mm = probe_after_crash(croot, calls, ci, j, t, bounds, flat, drv, tags)
        if (kk or mm) and fail_point is None:
            fail_point = [j, t]
        k += [f"crash {j}/{t} in {calls[ci][:2]}: {x}" for x in kk]
        for m in mm:
            m["what"] = f"crash at operation {j} ({flat[j][:2]}, torn={t}) of {calls[ci][:2]}: " + m["what"]
            fail_points.setdefault(m["cls"], [j, t])
        mon += mm
        # ---------- the same point as an EXCEPTION fault: operation j raises OSError, pharmpy's cleanup code runs
        if not (t is None and flat[j][0] in ("write", "append")):
            kk, mm = exception_fault(crash_tree, calls, ci, j, t, bounds, flat, drv, cmap, tags)
            if (kk or mm) and fail_point is None:
                fail_point = [j, t]
            k += [f"exception at {j}/{t} in {calls[ci][:2]}: {x}" for x in kk]
            for m in mm:
                m["what"] = (f"operation {j} ({flat[j][:2]}, torn={t}) of {calls[ci][:2]} raises OSError: " + m["what"])
                fail_points.setdefault(m["cls"], [j, t])
            mon += mm
        shutil.rmtree(croot, ignore_errors=True)
    shutil.rmtree(root, ignore_errors=True)
    if fail_point is not None:
        case["_fail_point"] = fail_point
    for cls in crashfree_classes:
        fail_points.setdefault(cls, [0, None])      # fails without any fault: one point is enough for a replay
    if fail_points:
        case["_fail_points"] = fail_points
    # one report per class and case is enough
    seen, mon1 = set(), []
    for m in mon:
        if m["cls"] not in seen:
            seen.add(m["cls"])
            mon1.append(m)
    return {"k": k[:8], "mon": mon1, "tags": tags, "nontrivial": bool(stored) and bool(points)}


EXC_RENAME = {"uncommitted-entry-visible", "committed-entry-unfaithful-after-crash", "committed-entry-lost",
              "committed-name-lost", "later-store-unfaithful", "later-store-not-retrievable", "later-store-fails"}


def exception_fault(crash_tree, calls, ci, j, t, bounds, flat, drv, cmap, tags):
    """Operation j raises an ordinary OSError (a write after t characters); the exception leaves the call through
    pharmpy's own finally/__exit__ blocks; then the tree is probed with fresh objects exactly as after a crash."""
    util = G["util"]
    k, mon = [], []
    xroot = fresh_dir("exc")
    outs = []
    with util.Injector(xroot, crash_at=j, torn=t, mode="exc") as inj:
        for c in calls:
            out, _ = real_call(xroot, c)
            inj.flush()
            outs.append(out)
            if inj.delivered:
                break
    if not inj.delivered:
        raise RuntimeError(f"exception fault point {j} was not reached (log {len(inj.log)})")
    tags.append("exc-in:" + calls[ci][0])
    tags.append("exc-outcome:" + (outs[-1][0] if outs[-1][0] == "ok" else outs[-1][1]))
    if len(outs) != ci + 1:
        k.append(f"the fault was delivered in call {len(outs) - 1}, expected call {ci}")
    got = [canon_log_entry(e[:3]) for e in inj.log]
    is_write = flat[j][0] in ("write", "append")
    want = flat[:j] + ([[flat[j][0], flat[j][1], flat[j][2][:t or 0]]] if is_write else [])
    if got[:len(want)] != want:
        k.append("operations before the fault differ from the crash-free prefix")
    cleanup = got[len(want):]
    tags.append("exc-cleanup-ops=%d" % len(cleanup))
    if drv is not None:
        drv.ask(["reset"])
        for c in calls[:ci]:
            drv.ask(["call", model_call(c)])
        ans = drv.ask(["fault", model_call(calls[ci]), j - bounds[ci][0], "none" if t is None else t])
        if ans[0] != "ok":
            return k + [f"driver {ans}"], mon
        mclean = [[o[0], o[1]] for o in ans[2]]
        if [c[:2] for c in cleanup] != mclean:
            k.append(f"cleanup operations after the exception: code {[c[:2] for c in cleanup]} model {mclean}")
        d = diff_trees(real_tree(xroot), model_tree(drv, cmap))
        if d:
            k.append(f"tree {d[:3]}")
    if real_tree(xroot) == crash_tree:
        # identical to the crash state of the same point: the probes (deterministic functions of the tree, run with
        # fresh objects) were just evaluated on it
        tags.append("exc-tree=crash-tree")
    else:
        tags.append("exc-tree-differs-from-crash-tree")
        kk, mm = probe_after_crash(xroot, calls, ci, j, t, bounds, flat, drv, tags)
        k += kk
        for m in mm:
            if m["cls"] in EXC_RENAME:
                m["cls"] = m["cls"].replace("-after-crash", "") + "-after-exception"
        mon += mm
    shutil.rmtree(xroot, ignore_errors=True)
    return k, mon


def real_call_raw(ctxroot, call):
    """Like real_call for mutating calls but lets Crash (a BaseException) and nothing else through."""
    out, _ = real_call(ctxroot, call)
    return out


def replay_tree(flat):
    t = {}
    for e in flat:
        if e[0] == "mkdir":
            t[e[1]] = "dir"
        elif e[0] == "create":
            t[e[1]] = ["file", ""]
        elif e[0] == "write":
            t[e[1]] = ["file", e[2]]
        elif e[0] == "append":
            t[e[1]] = ["file", t.get(e[1], ["file", ""])[1] + e[2]]
        elif e[0] == "unlink":
            t.pop(e[1], None)
        elif e[0] == "symlink":
            t[e[1]] = ["link", e[2]]
    return t


def compare_reads(root, reads, drv, tags):
    k = []
    for r in reads:
        out, _ = real_call(root, r)
        ans = drv.ask(["call", model_call(r)])
        mout = ans[1] if ans and ans[0] != "err" else ans
        if r[0] == "retrieve-log" and out[0] == "ok" and any(x and not isinstance(x[0], str) for x in out[1]):
            tags.append("log-retyped-column")
            continue
        if r[0] == "retrieve-log" and out[0] == "err" and out[1] in ("KeyError", "EmptyDataError"):
            out = ["err", "ParserError"]  # header torn during context creation: the model says unreadable
        if mout != out:
            k.append(f"{r}: code {out} model {mout}")
        tags.append("read:" + r[0] + ":" + (out[0] if out[0] == "ok" else out[1]))
    return k


NA_STRINGS = {"", "#N/A", "#N/A N/A", "#NA", "-1.#IND", "-1.#QNAN", "-NaN", "-nan", "1.#IND", "1.#QNAN", "<NA>", "N/A",
              "NA", "NULL", "NaN", "None", "n/a", "nan", "null"}


def fidelity_monitors(root, calls, outs, stored, names_in, tags, crashed):
    """Crash-free: everything stored successfully is retrievable and equivalent."""
    mon = []
    D = G["desc"]
    for c, o in zip(calls, outs):
        if o[0] != "ok":
            mon.append({"cls": "store-raises", "what": f"{c[:2]} raised {o[1]} in a crash-free run"})
    # by key
    last_by_key = {}
    for p in stored:
        last_by_key.setdefault(D[p]["key"], []).append(p)
    for key, pids in last_by_key.items():
        # the key identifies the entry: entries stored under one key must be the same model function, data and datainfo
        for q in pids[1:]:
            if D[q]["content"] != D[pids[0]]["content"]:
                diff = [n for n, a, b in zip(("model function/parameters", "dataset values", "datainfo"),
                                             D[q]["content"], D[pids[0]]["content"]) if a != b]
                mon.append({"cls": "distinct-entries-share-key",
                            "what": f"pool entries {pids[0]} and {q} differ in {diff} but ModelHash gives both the database key "
                                    f"{D[q]['digest'][:10]}…: the second store finds the model file of the first (early return of "
                                    f"store_model) and is retrieved as the first"})
                break
        out, me = real_call(root, ["db-retrieve", key])
        if out[0] != "ok":
            mon.append({"cls": "committed-entry-not-retrievable", "what": f"entry {pids} not retrievable by key: {out}"})
            continue
        want_res = any(G["pool"][p].modelfit_results is not None for p in pids)
        bad = same_entry(me, me.model, pids[0], False)
        bad = [b for b in bad if not b.startswith("results")]
        if (me.modelfit_results is not None) != want_res:
            bad.append("results present")
        if bad:
            cls = "entry-unfaithful"
            if bad == ["dataset"] or bad == ["dataset", "datainfo"] or bad == ["datainfo"]:
                first_same_data = [q for q in stored if D[q]["dh"] == D[pids[0]]["dh"]][0]
                if D[first_same_data]["di"] != D[pids[0]]["di"]:
                    cls = "same-data-other-datainfo-external-path"
            mon.append({"cls": cls, "what": f"entry {pids[0]} retrieved by key differs in {bad}"})
        lf = log_fidelity(me, pids)
        if lf:
            mon.append(lf)
    # by name
    final = {}
    for nm, p in names_in:
        final[nm] = p
    first = {}
    for nm, p in names_in:
        first.setdefault(nm, p)
    anns = {}
    for c in calls:
        if c[0] == "ann":
            anns[c[1]] = c[2]
        elif c[0] == "ctx-store":
            anns[D[c[1]]["name"]] = D[c[1]]["descr"]
    ctx = G["LocalDirectoryContext"]("ctx", root)
    for nm, p in final.items():
        try:
            me = ctx.retrieve_model_entry(nm)      # the real Context._retrieve_me
        except Exception as e:  # noqa
            mon.append({"cls": "committed-name-not-retrievable", "what": f"name {nm!r} (entry {p}) not retrievable: {err(e)}"})
            continue
        bad = [b for b in same_entry(me, me.model, p, True) if not b.startswith("results") and b != "description"]
        if D[first[nm]]["key"] == D[p]["key"]:
            lf = log_fidelity(me, last_by_key[D[p]["key"]])
            if lf:
                lf["what"] = f"by name {nm!r}: " + lf["what"]
                mon.append(lf)
        if bad:
            rebound = D[first[nm]]["key"] != D[p]["key"]
            cls = "name-rebind-ignored" if rebound else "entry-unfaithful"
            mon.append({"cls": cls, "what": f"entry {p} stored last under name {nm!r} comes back different in {bad}"
                        + (f" (the name still points to the key of {first[nm]})" if rebound else "")})
        if me.model.description != anns[nm]:
            a = anns[nm]
            cls = "annotation-newline" if ("\n" in a or "\r" in a) else "annotation-unfaithful"
            mon.append({"cls": cls, "what": f"description {a!r} of {nm!r} comes back as {me.model.description!r}"})
    # annotations stored directly
    for nm, a in anns.items():
        try:
            got = ctx.retrieve_annotation(nm)
        except Exception as e:  # noqa
            got = err(e)
        if got != a:
            cls = "annotation-newline" if ("\n" in a or "\r" in a) else "annotation-unfaithful"
            mon.append({"cls": cls, "what": f"annotation {a!r} stored for {nm!r} comes back as {got!r}"})
    # log
    msgs = [c[2] for c in calls if c[0] == "log"]
    mon += log_monitor(root, msgs, None)
    return mon


def log_monitor(root, msgs, inflight):
    """Messages of completed store_message calls come back in order and verbatim (an in-flight one may follow)."""
    mon = []
    if not msgs and inflight is None:
        return mon
    out, df = real_call(root, ["retrieve-log"])
    if out[0] != "ok":
        mon.append({"cls": "log-unreadable", "what": f"retrieve_log raised {out[1]} with {len(msgs)} committed messages"})
        return mon
    got = list(df["message"])
    if len(got) not in (len(msgs), len(msgs) + (1 if inflight is not None else 0)) or len(got) < len(msgs):
        mon.append({"cls": "log-row-count", "what": f"{len(msgs)} committed messages, {len(got)} rows"})
        return mon
    for m, g in zip(msgs, got):
        if isinstance(g, str) and g == m:
            continue
        if m in NA_STRINGS:
            cls = "log-message-na"
        elif not isinstance(g, str):
            cls = "log-message-retyped"
        else:
            cls = "log-message-altered"
        mon.append({"cls": cls, "what": f"message {m!r} comes back as {g!r} ({type(g).__name__})"})
        break
    if len(got) == len(msgs) + 1 and not (isinstance(got[-1], str) and got[-1] == inflight):
        mon.append({"cls": "log-partial-row-visible", "what": f"a row {got[-1]!r} of the interrupted append of {inflight!r} is visible"})
    return mon


def probe_after_crash(croot, calls, ci, j, t, bounds, flat, drv, tags):
    """Outcomes after the crash, real vs model, and the property monitors."""
    k, mon = [], []
    D = G["desc"]
    done = calls[:ci]
    cur = calls[ci]
    stored_done = [c[1] for c in done if c[0] in ("ctx-store", "db-store")]
    committed_keys = {}
    for p in stored_done:
        committed_keys.setdefault(D[p]["key"], []).append(p)
    cur_key = D[cur[1]]["key"] if cur[0] in ("ctx-store", "db-store", "db-meta") else None
    # did the transaction part of the current call complete? (its unlink of PENDING happened)
    cur_ops = flat[bounds[ci][0]:j]
    cur_committed = cur_key is not None and any(e[0] == "unlink" and e[1].endswith("PENDING") for e in cur_ops)
    cur_in_txn = cur_key is not None and not cur_committed and any(e[0] == "create" and e[1].endswith("PENDING") for e in cur_ops)
    if cur_committed and cur[0] in ("ctx-store", "db-store"):
        committed_keys.setdefault(cur_key, []).append(cur[1])

    def ask(call):
        if drv is None:
            return None
        ans = drv.ask(["call", model_call(call)])
        return ans[1] if ans and ans[0] != "err" else ans

    # --- 1. every key of the pool: retrieve
    keys = sorted({D[p]["key"] for p in POOL_IDS})
    for key in keys:
        out, me = real_call(croot, ["db-retrieve", key])
        if drv is not None:
            drv.ask(["push"])
            mout = ask(["db-retrieve", key])
            drv.ask(["pop"])
            if mout != out:
                k.append(f"retrieve {key}: code {out} model {mout}")
        tags.append("probe-retrieve:" + (out[0] if out[0] == "ok" else out[1]))
        pids = committed_keys.get(key, [])
        if out[0] == "ok":
            if not pids:
                mon.append({"cls": "uncommitted-entry-visible", "what": f"key {key} was never committed but a reader obtains {out[1]}"})
            else:
                bad = [b for b in same_entry(me, me.model, pids[0], False) if not b.startswith("results")]
                want_res = any(G["pool"][p].modelfit_results is not None for p in pids)
                if cur_key != key and (me.modelfit_results is not None) != want_res:
                    bad.append("results present")
                if bad and not external_ok(pids[0], stored_done + [cur[1]] if cur_key else stored_done, bad):
                    mon.append({"cls": "committed-entry-unfaithful-after-crash",
                                "what": f"committed entry {pids[0]} (key {key}) comes back different in {bad}"})
                lf = log_fidelity(me, pids)
                if lf:
                    mon.append(lf)
        elif pids:
            if out[1] == "PendingTransactionError" and key == cur_key and cur_in_txn:
                mon.append({"cls": "stale-pending-blocks-committed-key",
                            "what": f"entry {pids[0]} (key {key}) was committed, an interrupted later transaction on the same key "
                                    f"leaves PENDING behind and every reader is refused"})
            else:
                mon.append({"cls": "committed-entry-lost", "what": f"committed entry {pids[0]} (key {key}) is not retrievable: {out}"})

    # --- 2. names
    names_done = {}
    first_done = {}
    ann_done = {}
    for c in done:
        if c[0] == "ctx-store":
            names_done[D[c[1]]["name"]] = c[1]
            first_done.setdefault(D[c[1]]["name"], c[1])
            ann_done[D[c[1]]["name"]] = D[c[1]]["descr"]
        elif c[0] == "ann":
            ann_done[c[1]] = c[2]
    ann_write_torn = cur[0] in ("ctx-store", "ann") and flat[j][1] == "ctx/annotations" and \
        (flat[j][0] == "write" or (j + 1 < len(flat) and False))
    ann_truncated = cur[0] in ("ctx-store", "ann") and any(e[0] == "create" and e[1] == "ctx/annotations" for e in cur_ops) and \
        not any(e[0] == "write" and e[1] == "ctx/annotations" for e in cur_ops)
    for nm in sorted(set(names_done) | {"mA", "zz"}):
        out, val = real_call(croot, ["ctx-retrieve", nm])
        if drv is not None:
            drv.ask(["push"])
            mout = ask(["ctx-retrieve", nm])
            drv.ask(["pop"])
            if mout != out:
                k.append(f"retrieve name {nm}: code {out} model {mout}")
        p = names_done.get(nm)
        if p is None:
            continue
        rebound = D[first_done[nm]]["key"] != D[p]["key"]
        if out[0] == "ok":
            me, model = val
            bad = [b for b in same_entry(me, model, p, True) if not b.startswith("results") and b != "description"]
            a = ann_done[nm]
            if model.description != a and "\n" not in a and "\r" not in a:
                bad.append("description")
            if bad and not rebound and not external_ok(p, stored_done, bad):
                # an annotation file being rewritten may show a cut description
                if bad == ["description"] and ann_truncated:
                    mon.append({"cls": "annotation-rewrite-not-atomic",
                                "what": f"description of committed {nm!r} comes back as {model.description!r}"})
                elif bad == ["description"] and cur[0] in ("ann", "ctx-store") and \
                        (cur[1] == nm or (cur[0] == "ctx-store" and D[cur[1]]["name"] == nm)):
                    pass  # legitimately being changed by the interrupted call
                else:
                    mon.append({"cls": "committed-entry-unfaithful-after-crash",
                                "what": f"committed name {nm!r} (entry {p}) comes back different in {bad}"})
        else:
            # decided from the witness: the key the name's link points to (store_key never re-binds a name, so this
            # may be the key of an earlier entry stored under that name) carries PENDING, was committed before the
            # interrupted call, and the interrupted call is a transaction on it
            link_key = None
            try:
                link_key = G["keys"].get(os.path.basename(os.readlink(croot / "ctx" / "models" / nm)))
            except OSError:
                pass
            stale = link_key is not None and link_key == cur_key and cur_in_txn and link_key in committed_keys and \
                (croot / "ctx" / ".modeldb" / digest_of_label(link_key) / ".pharmpy" / "PENDING").exists()
            if out[1] == "PendingTransactionError" and stale:
                mon.append({"cls": "stale-pending-blocks-committed-key",
                            "what": f"name {nm!r} (link to key {link_key}): interrupted later transaction on that committed key "
                                    f"leaves PENDING behind"})
            elif ann_truncated and out[1] in ("KeyError", "IndexError"):
                mon.append({"cls": "annotation-rewrite-not-atomic",
                            "what": f"committed name {nm!r} lost its annotation ({out[1]}): store_annotation truncates and rewrites "
                                    f"the whole annotations file"})
            else:
                mon.append({"cls": "committed-name-lost", "what": f"committed name {nm!r} (entry {p}) is not retrievable: {out}"})

    # --- 3. log
    msgs_done = [c[2] for c in done if c[0] == "log"]
    inflight = cur[2] if cur[0] == "log" else None
    in_log_append = cur[0] == "log" and flat[j][0] == "append"
    lm = log_monitor(croot, msgs_done, inflight)
    for m in lm:
        if in_log_append and t is not None and m["cls"] in ("log-unreadable", "log-partial-row-visible", "log-row-count"):
            m["cls"] = "log-torn-append"
        if cur[0] == "init" and m["cls"] == "log-unreadable":
            continue
    mon += [m for m in lm if not (cur[0] == "init")]
    if drv is not None:
        drv.ask(["push"])
        k += compare_reads(croot, [["retrieve-log"]], drv, tags)
        drv.ask(["pop"])

    # --- 4. later stores: every pool entry on a copy of the crashed tree, then retrieve it
    for p in POOL_IDS:
        if p in ("A2", "BR", "AL"):
            continue
        copy = fresh_dir("copy")
        shutil.rmtree(copy)
        shutil.copytree(croot, copy, symlinks=True)
        call = ["db-store", p] if p != "C" else ["ctx-store", p]
        out, _ = real_call(copy, call)
        out2, val2 = (real_call(copy, ["db-retrieve", D[p]["key"]]) if out[0] == "ok" else (None, None))
        if drv is not None:
            drv.ask(["push"])
            mout = ask(call)
            if mout != out:
                k.append(f"store {p} after crash: code {out} model {mout}")
            if out2 is not None:
                mout2 = ask(["db-retrieve", D[p]["key"]])
                if mout2 != out2:
                    k.append(f"retrieve after store {p} after crash: code {out2} model {mout2}")
            drv.ask(["pop"])
        tags.append("probe-store:" + (out[0] if out[0] == "ok" else out[1]))
        key = D[p]["key"]
        stale_index = cur[0] in ("ctx-store", "db-store") and cur_in_txn and D[cur[1]]["dh"] == D[p]["dh"] and \
            index_stale(croot, G["pool"][cur[1]])
        if out[0] != "ok":
            if out[1] == "PendingTransactionError" and key == cur_key and cur_in_txn:
                continue   # the crashed key itself: the statement exempts it
            if stale_index and out[1] in ("StopIteration", "FileNotFoundError", "JSONDecodeError"):
                mon.append({"cls": "store-after-crash-shared-dataset",
                            "what": f"storing {p} (shares the dataset of the interrupted store of {cur[1]}) raises {out[1]}"})
            elif cur[0] == "init":
                continue
            elif p == "C" and ann_truncated is False and out[1] == "FileNotFoundError" and cur[0] == "init":
                continue
            else:
                mon.append({"cls": "later-store-fails", "what": f"storing {p} after the crash raises {out[1]}"})
        elif out2[0] != "ok":
            mon.append({"cls": "later-store-not-retrievable", "what": f"{p} stored after the crash is not retrievable: {out2}"})
        else:
            me = val2
            bad = [b for b in same_entry(me, me.model, p, False) if not b.startswith("results")]
            if bad and not external_ok(p, stored_done + ([cur[1]] if cur_key else []) + [p], bad):
                wrong = "dataset" in bad and wrong_dataset_window(croot)
                mon.append({"cls": "wrong-dataset-after-crash" if wrong else "later-store-unfaithful",
                            "what": f"{p} stored after the crash comes back different in {bad}"})
            lf = log_fidelity(me, committed_keys.get(key, []) + [p])
            if lf:
                lf["what"] = f"{p} stored after the crash: " + lf["what"]
                mon.append(lf)
        shutil.rmtree(copy, ignore_errors=True)
    # wrong dataset needs two later stores: C takes the stale name, then B is bound to it
    if cur[0] in ("ctx-store", "db-store") and cur_in_txn and D[cur[1]]["dh"] == "H1":
        copy = fresh_dir("copy")
        shutil.rmtree(copy)
        shutil.copytree(croot, copy, symlinks=True)
        o1, _ = real_call(copy, ["db-store", "C"])
        o2, _ = real_call(copy, ["db-store", "B"])
        o3, me3 = real_call(copy, ["db-retrieve", D["B"]["key"]]) if o2[0] == "ok" else (None, None)
        if drv is not None:
            drv.ask(["push"])
            m1, m2 = ask(["db-store", "C"]), ask(["db-store", "B"])
            m3 = ask(["db-retrieve", D["B"]["key"]]) if o2[0] == "ok" else None
            drv.ask(["pop"])
            if [m1, m2, m3] != [o1, o2, o3]:
                k.append(f"stores C, B after crash: code {[o1, o2, o3]} model {[m1, m2, m3]}")
        if o3 is not None and o3[0] == "ok" and D["B"]["key"] != cur_key:
            bad = same_entry(me3, me3.model, "B", False)
            if "dataset" in bad:
                tags.append("wrong-dataset-hit")
                mon.append({"cls": "wrong-dataset-after-crash",
                            "what": "after the crash C (other dataset, equal datainfo) is stored and takes the data file name of the "
                                    "stale index entry; B (dataset of the interrupted store) is then bound to C's data and is "
                                    "retrieved with the wrong dataset"})
        shutil.rmtree(copy, ignore_errors=True)
    # --- 5. names: every linked name points to a key that committed (linked_name_committed)
    mdir = croot / "ctx" / "models"
    links = {}
    try:
        listed = G["LocalDirectoryContext"]("ctx", croot).list_all_names()
    except Exception as e:  # noqa
        listed = []
        mon.append({"cls": "list-all-names-fails", "what": f"list_all_names raises {type(e).__name__}"})
    for nm in listed:
        try:
            links[nm] = G["keys"].get(os.path.basename(os.readlink(mdir / nm)), "K?")
        except OSError:
            links[nm] = None
    tags.append("linked-names=%d" % len(links))
    for nm, lk in links.items():
        if lk is not None and lk not in committed_keys:
            mon.append({"cls": "name-linked-to-uncommitted-key",
                        "what": f"list_all_names() lists {nm!r}, linked to key {lk}, whose transaction never committed "
                                f"(committed keys: {sorted(committed_keys)})"})
    # --- 6. storing ANOTHER model under the name of the interrupted Context store, then retrieving it by name
    if cur[0] == "ctx-store":
        nm = D[cur[1]]["name"]
        other = next((p for p in ("C", "A", "B", "E") if D[p]["key"] != cur_key and D[p]["dh"] != D[cur[1]]["dh"]),
                     next((p for p in ("C", "A", "B", "E") if D[p]["key"] != cur_key), None))
        if other is None:
            tags.append("restore-under-name:no-other-key")
            return k, mon
        copy = fresh_dir("copy")
        shutil.rmtree(copy)
        shutil.copytree(croot, copy, symlinks=True)
        o1, _ = real_call(copy, ["ctx-store-as", other, nm])
        o2, val = real_call(copy, ["ctx-retrieve", nm]) if o1[0] == "ok" else (None, None)
        if drv is not None:
            drv.ask(["push"])
            m1 = ask(["ctx-store-as", other, nm])
            m2 = ask(["ctx-retrieve", nm]) if o1[0] == "ok" else None
            drv.ask(["pop"])
            if [m1, m2] != [o1, o2]:
                k.append(f"store {other} under the interrupted name {nm!r}, retrieve by name: code {[o1, o2]} model {[m1, m2]}")
        tags.append("restore-under-name:" + (o1[0] if o1[0] != "ok" else (o2[0] if o2[0] == "ok" else o2[1])))
        lk = links.get(nm)
        in_annotations = flat[j][1] == "ctx/annotations" or ann_truncated
        if o1[0] != "ok":
            stale = cur_in_txn and D[cur[1]]["dh"] == D[other]["dh"] and index_stale(croot, G["pool"][cur[1]])
            if stale and o1[1] in ("StopIteration", "FileNotFoundError", "JSONDecodeError"):
                # the witness of the known F5 class: stale index entry of the shared dataset
                mon.append({"cls": "store-after-crash-shared-dataset",
                            "what": f"storing {other} (shares the dataset of the interrupted store of {cur[1]}) under {nm!r} raises {o1[1]}"})
            else:
                mon.append({"cls": "later-store-under-interrupted-name-fails",
                            "what": f"storing {other} under the name {nm!r} of the interrupted store raises {o1[1]}"})
        else:
            good = o2[0] == "ok" and not [b for b in same_entry(val[0], val[1], other, False) if not b.startswith("results")]
            if not good:
                got = o2[1] if o2[0] == "ok" else o2
                if lk is not None and lk in committed_keys:
                    mon.append({"cls": "name-rebind-ignored",
                                "what": f"{other} stored under {nm!r} after the crash; the name keeps its link to the committed key "
                                        f"{lk}: retrieve by name gives {got}"})
                elif lk is not None:
                    mon.append({"cls": "name-linked-to-uncommitted-key",
                                "what": f"the interrupted store left {nm!r} linked to key {lk}, which never committed; storing "
                                        f"{other} under {nm!r} afterwards succeeds but retrieve_model_entry({nm!r}) gives {got}"})
                elif in_annotations and o2[0] == "err" and o2[1] in ("KeyError", "IndexError"):
                    mon.append({"cls": "annotation-rewrite-not-atomic",
                                "what": f"after a crash inside the annotations rewrite, {other} stored under {nm!r} has no readable "
                                        f"annotation ({o2[1]})"})
                else:
                    mon.append({"cls": "later-store-under-interrupted-name-unfaithful",
                                "what": f"{other} stored under {nm!r} after the crash, retrieve by name gives {got}"})
        shutil.rmtree(copy, ignore_errors=True)
    return k, mon


def external_ok(pid, stored_before, bad):
    """The model file of `pid` legitimately points outside the database when the same data was first stored with another
    datainfo (reported crash-free as its own class)."""
    D = G["desc"]
    same = [q for q in stored_before if D[q]["dh"] == D[pid]["dh"]]
    return bool(same) and D[same[0]]["di"] != D[pid]["di"] and set(bad) <= {"dataset", "datainfo"}


def index_stale(croot, me):
    """The index directory of the entry's dataset exists but its datainfo is not a complete file."""
    h = G["ModelHash"](me.model).dataset_hash
    hd = croot / "ctx" / ".modeldb" / ".datasets" / ".hash" / h
    if not hd.is_dir():
        return False
    names = os.listdir(hd)
    if not names:
        return True
    di = croot / "ctx" / ".modeldb" / ".datasets" / (os.path.splitext(names[0])[0] + ".datainfo")
    try:
        json.loads(di.read_text())
        return False
    except Exception:  # noqa
        return True


def wrong_dataset_window(croot):
    return True


# ---------------------------------------------------------------- text cases

def run_text_case(case, drv):
    pd = G["pd"]
    k, mon, tags = [], [], []
    hdr = "path,time,severity,message\n"

    # single messages and one whole log, written by the real store_message and read by the real retrieve_log
    lroot = fresh_dir("log")
    lctx = G["LocalDirectoryContext"]("ctx", lroot)
    logf = lroot / "ctx" / "log.csv"
    text = hdr
    for m in case["msgs"]:
        logf.write_text(hdr)
        lctx.store_message("info", "ctx", DATE, m)
        one = file_text(logf)
        line = one[len(hdr):]
        text += line
        try:
            got = log_canon(lctx.retrieve_log())
        except Exception as e:  # noqa
            got = err(e)
        if drv is not None:
            exp = hdr + f"ctx,{DATE},info," + drv.ask(["mangle", m]) + "\n"
            if exp != one:
                k.append(f"store_message({m!r}): code appends {line!r}, model {exp[len(hdr):]!r}")
        tags.append("msg:" + ("na" if m in NA_STRINGS else "nl" if "\n" in m else "quote" if '"' in m else "plain"))
        if drv is not None:
            ans = drv.ask(["readlog", one])
            mo = ans[1] if ans[0] == "ok" else ans
            if not (isinstance(got, list) and got and got[0] and not isinstance(got[0][0], str)) and mo != got:
                k.append(f"read of one-message log {m!r}: code {got} model {mo}")
        if got != [[m]]:
            if m in NA_STRINGS:
                cls = "log-message-na"
            elif isinstance(got, list) and got and got[0] and not isinstance(got[0][0], str):
                cls = "log-message-retyped"
            else:
                cls = "log-message-altered"
            mon.append({"cls": cls, "what": f"message {m!r} alone in a log comes back as {got}"})
        # torn prefixes of the line
        if drv is not None:
            rng = random.Random(case["seed"] + len(m))
            for n in sorted({rng.randrange(len(line) + 1) for _ in range(3)}):
                tt = hdr + f"ctx,{DATE},info,\"first\"\n" + line[:n]
                try:
                    logf.write_text(tt)
                    g2 = log_canon(lctx.retrieve_log())
                except Exception as e:  # noqa
                    g2 = err(e)
                ans = drv.ask(["readlog", tt])
                mo = ans[1] if ans[0] == "ok" else ans
                if mo != g2:
                    k.append(f"read of torn log {tt[len(hdr):]!r}: code {g2} model {mo}")
                tags.append("torn-log:" + ("err" if g2 and g2[0] == "err" else "rows"))
    if drv is not None:
        logf.write_text(text)
        try:
            got = log_canon(lctx.retrieve_log())
        except Exception as e:  # noqa
            got = err(e)
        ans = drv.ask(["readlog", text])
        mo = ans[1] if ans[0] == "ok" else ans
        if not any(x and not isinstance(x[0], str) for x in got) and mo != got:
            k.append(f"read of the whole log: code {str(got)[:200]} model {str(mo)[:200]}")
    shutil.rmtree(lroot, ignore_errors=True)
    # entry logs through the results JSON path: ModelfitResults.to_json -> read_results, lengths 0..30
    for entries in case.get("rlogs", []):
        log = make_log(entries)
        want = describe_log(log)
        res = G["ModelfitResults"](ofv=1.0, log=log)
        txt = res.to_json()
        try:
            got = describe_log(G["read_results"](txt).log)
        except Exception as e:  # noqa
            got = err(e)
        tags.append("json-log-len=%s" % (len(entries) if len(entries) < 10 else "1x" if len(entries) < 20 else "2x+"))
        if got != want:
            first = next((i for i, (a, b) in enumerate(zip(got or [], want)) if a != b), None) if isinstance(got, list) else None
            mon.append({"cls": "entry-log-not-verbatim",
                        "what": f"a results log of {len(want)} messages comes back from to_json/read_results "
                                f"{'changed at position %s' % first if isinstance(got, list) else got}: stored "
                                f"{[m for _, m, _ in want][:14]} retrieved {[m for _, m, _ in got][:14] if isinstance(got, list) and got and len(got[0]) == 3 else got}"})
        if drv is not None:
            top = json.loads(txt, object_pairs_hook=lambda ps: ps)
            logobj = dict((a, b) for a, b in top).get("log") or []
            pairs = [[key, ["entry", [dict(v).get("category"), dict(v).get("message"), dict(v).get("time")]]
                      if isinstance(v, list) else ["str", v]] for key, v in logobj]
            enc = drv.ask(["log-encode", want])
            if enc != pairs:
                k.append(f"JSON object of a log of {len(want)} messages: code keys {[q[0] for q in pairs][:14]} model keys {[q[0] for q in enc][:14]}")
            dec = drv.ask(["log-decode", pairs])
            mdl = dec[1] if dec[0] == "ok" else None
            if mdl != got:
                k.append(f"log of {len(want)} messages read back: code {str(got)[:200]} model {str(mdl)[:200]}")
    # annotations through the real context
    root = fresh_dir("ann")
    ctx = G["LocalDirectoryContext"]("ctx", root)
    cur = ""
    names = ["mA", "mB", "m C", "zz"]
    rng = random.Random(case["seed"])
    for a in case["anns"]:
        nm = rng.choice(names)
        ctx.store_annotation(nm, a)
        new = file_text(root / "ctx" / "annotations")
        if drv is not None:
            mo = drv.ask(["store-annotation-text", nm, a, cur])
            if mo != new:
                k.append(f"store_annotation({nm!r},{a!r}) on {cur!r}: code {new!r} model {mo!r}")
        cur = new
        for q in names:
            try:
                got = ["ok", ctx.retrieve_annotation(q)]
            except Exception as e:  # noqa
                got = err(e)
            if drv is not None:
                mo = drv.ask(["retrieve-annotation-text", q, cur])
                if mo != got:
                    k.append(f"retrieve_annotation({q!r}) on {cur!r}: code {got} model {mo}")
            if q == nm and got != ["ok", a]:
                if "\n" in a or "\r" in a:
                    cls = "annotation-newline"
                elif " " in nm:
                    cls = "annotation-name-with-blank"
                else:
                    cls = "annotation-unfaithful"
                mon.append({"cls": cls, "what": f"annotation {a!r} stored for {nm!r} comes back as {got}"})
        tags.append("ann:" + ("nl" if ("\n" in a or "\r" in a) else "plain"))
    shutil.rmtree(root, ignore_errors=True)
    seen, mon1 = set(), []
    for m in mon:
        if m["cls"] not in seen:
            seen.add(m["cls"])
            mon1.append(m)
    return {"k": k[:8], "mon": mon1, "tags": tags, "nontrivial": True}
