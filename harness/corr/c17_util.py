"""C17 — nested executions: tasks that call `context.call_workflow` on a child workflow while the parent graph
is live on the SAME distributed scheduler (dispatchers/local_dask/{run,call}.py), executed for real with
LocalCluster(processes=False).

The task functions are instances of module-level classes, so dask can tokenize/pickle them by reference to this
module; all instances log into the module-global LOG of the current case (scheduler and workers live in this
process).  Every function instance carries a unique `uid` = (graph instance, task id), so the call log identifies
the task, also when tasks of different graphs share names and positions.
"""
from __future__ import annotations

import threading

LOG = []                 # (uid) of every call, in call order
CHILDREN = {}            # child index -> Workflow (the graphs a CallFn may submit)
CALLS = []               # (child index, unique name) of every call_workflow
SUBMITTED = []           # (workflow id, dict) of every Workflow.as_dask_dict() while recording
_lock = threading.Lock()


def render(x):
    if isinstance(x, str):
        return x
    if isinstance(x, list):
        return "[" + ",".join(render(y) for y in x) + "]"
    if isinstance(x, tuple):
        return "<" + ",".join(render(y) for y in x) + ">"
    if type(x).__name__ == "NullContext":
        return "ctx"
    if callable(x):
        return getattr(x, "__name__", "fn")
    return repr(x)


class TermFn:
    """f(*args) -> 't<name>(args…)'"""

    def __init__(self, name, uid):
        self.name, self.uid = name, uid
        self.__name__ = f"t{name}"

    def __call__(self, *a):
        with _lock:
            LOG.append(self.uid)
        return f"t{self.name}(" + ",".join(render(x) for x in a) + ")"


class CtxTermFn(TermFn):
    """f(context, *args) -> 't<name>(ctx,args…)'"""

    def __call__(self, context, *a):
        with _lock:
            LOG.append(self.uid)
        return f"t{self.name}(" + ",".join(render(x) for x in (context,) + a) + ")"


class CallFn(TermFn):
    """f(context, *args): runs child workflow number `child` through context.call_workflow and returns
    't<name>(ctx,<child result>,args…)' — i.e. the child's value is the first input after the context."""

    def __init__(self, name, uid, child, unique_name):
        super().__init__(name, uid)
        self.child, self.unique_name = child, unique_name

    def __call__(self, context, *a):
        with _lock:
            LOG.append(self.uid)
            CALLS.append((self.child, self.unique_name))
        res = context.call_workflow(CHILDREN[self.child], self.unique_name)
        return f"t{self.name}(" + ",".join(render(x) for x in (context, res) + a) + ")"


def reset():
    del LOG[:]
    del CALLS[:]
    del SUBMITTED[:]
    CHILDREN.clear()


class record_dicts:
    """Instrument Workflow.as_dask_dict from outside: keep every dict handed to a scheduler within the block."""

    def __enter__(self):
        from pharmpy.workflows.workflow import Workflow
        self.cls = Workflow
        self.orig = Workflow.as_dask_dict
        orig = self.orig

        def as_dask_dict(wf):
            d = orig(wf)
            with _lock:
                SUBMITTED.append((id(wf), d))
            return d
        Workflow.as_dask_dict = as_dask_dict
        return self

    def __exit__(self, *a):
        self.cls.as_dask_dict = self.orig


def shared_keys(dicts):
    """keys (other than 'results') that occur in more than one of the given dask dicts"""
    seen, dup = {}, set()
    for j, d in enumerate(dicts):
        for k in d:
            if k == "results":
                continue
            if k in seen and seen[k] != j:
                dup.add(k)
            seen.setdefault(k, j)
    return sorted(dup, key=str)
