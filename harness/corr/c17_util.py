"""C17 — nested executions: tasks that call `context.call_workflow` on a child workflow while the parent graph
is live on the SAME distributed scheduler (dispatchers/local_dask/{run,call}.py), executed for real with
LocalCluster(processes=False).

The task functions are instances of module-level classes, so dask can tokenize/pickle them by reference to this
module; all instances log into the module-global LOG of the current case (scheduler and workers live in this
process).  Every function instance carries a unique `uid` = (graph instance, task id), so the call log identifies
the task, also when tasks of different graphs share names and positions.
"""
from __future__ import annotations

import threading

LOG = []                 # (uid) of every call, in call order
CHILDREN = {}            # child index -> Workflow (the graphs a CallFn may submit)
CALLS = []               # (child index, unique name) of every call_workflow
SUBMITTED = []           # (workflow id, dict) of every Workflow.as_dask_dict() while recording
_lock = threading.Lock()


def render(x):
    if isinstance(x, str):
        return x
    if isinstance(x, list):
        return "[" + ",".join(render(y) for y in x) + "]"
    if isinstance(x, tuple):
        return "<" + ",".join(render(y) for y in x) + ">"
    if type(x).__name__ == "NullContext":
        return "ctx"
    if callable(x):
        return getattr(x, "__name__", "fn")
    return repr(x)


class TermFn:
    """f(*args) -> 't<name>(args…)'"""

    def __init__(self, name, uid):
        self.name, self.uid = name, uid
        self.__name__ = f"t{name}"

    def __call__(self, *a):
        with _lock:
            LOG.append(self.uid)
        return f"t{self.name}(" + ",".join(render(x) for x in a) + ")"


class CtxTermFn(TermFn):
    """f(context, *args) -> 't<name>(ctx,args…)'"""

    def __call__(self, context, *a):
        with _lock:
            LOG.append(self.uid)
        return f"t{self.name}(" + ",".join(render(x) for x in (context,) + a) + ")"


class CallFn(TermFn):
    """f(context, *args): runs child workflow number `child` through context.call_workflow and returns
    't<name>(ctx,<child result>,args…)' — i.e. the child's value is the first input after the context."""

    def __init__(self, name, uid, child, unique_name):
        super().__init__(name, uid)
        self.child, self.unique_name = child, unique_name

    def __call__(self, context, *a):
        with _lock:
            LOG.append(self.uid)
            CALLS.append((self.child, self.unique_name))
        res = context.call_workflow(CHILDREN[self.child], self.unique_name)
        return f"t{self.name}(" + ",".join(render(x) for x in (context, res) + a) + ")"


def reset():
    del LOG[:]
    del CALLS[:]
    del SUBMITTED[:]
    CHILDREN.clear()


class record_dicts:
    """Instrument Workflow.as_dask_dict from outside: keep every dict handed to a scheduler within the block."""

    def __enter__(self):
        from pharmpy.workflows.workflow import Workflow
        self.cls = Workflow
        self.orig = Workflow.as_dask_dict
        orig = self.orig

        def as_dask_dict(wf):
            d = orig(wf)
            with _lock:
                SUBMITTED.append((id(wf), d))
            return d
        Workflow.as_dask_dict = as_dask_dict
        return self

    def __exit__(self, *a):
        self.cls.as_dask_dict = self.orig


def shared_keys(dicts):
    """keys (other than 'results') that occur in more than one of the given dask dicts"""
    seen, dup = {}, set()
    for j, d in enumerate(dicts):
        for k in d:
            if k == "results":
                continue
            if k in seen and seen[k] != j:
                dup.add(k)
            seen.setdefault(k, j)
    return sorted(dup, key=str)


# ---------------------------------------------------------------------------------------------------------------
# Static inputs that are SCATTERED by the distributed dispatcher (optimize_task_graph_for_dask_distributed):
# objects that are none of dict/int/str/float/bool/range/Future/callable.

class Val:
    """A value object: equality and hash by `key` only, `label` is observable (repr) but not part of equality —
    like pharmpy's Model (== ignores name/description), a dataclass with compare=False fields, Decimal(1)/Fraction(1).
    Two Val with the same key and different labels are equal, hash-equal, distinct and observably different."""

    def __init__(self, key, label):
        self.key, self.label = key, label

    def __eq__(self, other):
        return isinstance(other, Val) and self.key == other.key

    def __hash__(self):
        return hash(("Val", self.key))

    def __repr__(self):
        return f"v{self.key}#{self.label}"


class UVal:
    """The same, unhashable (like a DataFrame / a list-holding object)."""
    __hash__ = None

    def __init__(self, key, label):
        self.key, self.label = key, label

    def __eq__(self, other):
        return isinstance(other, UVal) and self.key == other.key

    def __repr__(self):
        return f"u{self.key}#{self.label}"


class FakeFuture:
    """What FakeClient.scatter returns: stands for 'the datum number n on the cluster' (distributed replaces a
    Future argument by the scattered datum when the task runs)."""

    def __init__(self, n, obj):
        self.n, self.obj = n, obj

    def __repr__(self):
        return f"<future {self.n}>"


class FakeClient:
    def __init__(self):
        self.store = []

    def scatter(self, value, **kwargs):
        self.store.append(value)
        return FakeFuture(len(self.store) - 1, value)


def gen_scatter(rng, tier):
    """A dask graph as Workflow.as_dask_dict makes them — key -> (function, *static inputs, *predecessor keys), one
    sink 'results' — whose static inputs are drawn from: str/int/bool/dict/range/callable (kept by the dispatcher),
    None, hashable value objects and unhashable objects (scattered), lists of those (nested), the empty tuple and a
    non-task tuple.  Value objects come from a pool of 1-3 equality keys with a fresh label each, so DISTINCT objects
    that compare equal (and hash equal) but are observably different occur in different tasks (and within one task)
    by construction; sometimes the very same object is given to two tasks."""
    n = rng.randint(2, 7 if tier == "quick" else 12)
    nkeys = rng.randint(1, 3)
    objs = []                       # object table: [kind, key]; the label is the index

    def new_obj():
        if objs and rng.random() < 0.15:
            return rng.randrange(len(objs))               # the identical object again
        kind = "obj" if rng.random() < 0.8 else "uobj"
        objs.append([kind, rng.randrange(nkeys)])
        return len(objs) - 1

    def leaf():
        r = rng.random()
        if r < 0.50:
            return ["obj", new_obj()]
        if r < 0.60:
            return ["s", f"s{rng.randrange(100)}"]
        if r < 0.68:
            return ["i", rng.randrange(5)]
        if r < 0.73:
            return ["b", rng.random() < 0.5]
        if r < 0.78:
            return ["d"]
        if r < 0.82:
            return ["r", rng.randrange(4)]
        if r < 0.87:
            return ["fn", rng.randrange(3)]
        if r < 0.95:
            return ["none"]
        return ["tuple"]

    def comp(depth):
        r = rng.random()
        if depth < 2 and r < 0.2:
            return ["list"] + [comp(depth + 1) for _ in range(rng.randint(0, 3))]
        if depth < 2 and r < 0.25:
            return ["tuple", ["s", "lit"]] + [comp(depth + 1) for _ in range(rng.randint(0, 2))]
        return leaf()

    entries = []
    has_succ = set()
    for i in range(n):
        if i == n - 1:
            ps = [j for j in range(i) if j not in has_succ]
            rng.shuffle(ps)
        else:
            ps = rng.sample(range(i), rng.randint(0, min(2, i))) if i else []
        has_succ |= set(ps)
        entries.append(["results" if i == n - 1 else f"k{i}", i, [comp(0) for _ in range(rng.choice([0, 1, 1, 2, 3]))],
                        [f"k{p}" for p in ps]])
    return {"kind": "scatter", "objs": objs, "entries": entries, "seed": rng.randrange(1 << 30)}


def scatter_corpus():
    return [
        # two tasks, each with its own static input; the two objects are equal (same key) but distinct
        {"kind": "scatter", "seed": 1, "objs": [["obj", 0], ["obj", 0]],
         "entries": [["k0", 0, [["obj", 0]], []], ["k1", 1, [["obj", 1]], []], ["results", 2, [], ["k0", "k1"]]]},
        # equal objects inside one task's list, an unhashable one, None, kept values
        {"kind": "scatter", "seed": 2, "objs": [["obj", 1], ["obj", 1], ["uobj", 1], ["uobj", 1]],
         "entries": [["k0", 0, [["list", ["obj", 0], ["i", 3], ["obj", 1]], ["none"], ["d"]], []],
                     ["results", 1, [["obj", 2], ["obj", 3], ["obj", 0], ["tuple"], ["fn", 1]], ["k0"]]]},
    ]


def shrink_scatter(case):
    import json
    es = case["entries"]
    for i in range(len(es) - 1):                      # drop a non-sink entry nobody else refers to more than as a pred
        c = json.loads(json.dumps(case))
        key = es[i][0]
        c["entries"] = [[e[0], e[1], e[2], [p for p in e[3] if p != key]] for j, e in enumerate(c["entries"]) if j != i]
        yield c
    for i, e in enumerate(es):
        for j in range(len(e[2])):
            c = json.loads(json.dumps(case))
            del c["entries"][i][2][j]
            yield c
            if e[2][j][0] in ("list", "tuple") and len(e[2][j]) > 1:
                for m in range(1, len(e[2][j])):
                    c = json.loads(json.dumps(case))
                    del c["entries"][i][2][j][m]
                    yield c


_SCATTER_FNS = {}


def _gfn(j):
    if j not in _SCATTER_FNS:
        def g(*a):
            raise AssertionError("a callable that is a static input was called")
        g.__name__ = f"g{j}"
        _SCATTER_FNS[j] = g
    return _SCATTER_FNS[j]


def run_scatter(case, drv):
    """K + Mon for the clause 'every task receives ITS static inputs' on the distributed dispatcher's graph rewriting
    (optimize_task_graph_for_dask_distributed), with a recording client whose Futures stand for the scattered datum."""
    import dask.optimization
    from pharmpy.workflows.dispatchers.local_dask.optimize import optimize_task_graph_for_dask_distributed

    k, mon, tags = [], [], []
    reset()
    table = {}

    def obj(i):
        if i not in table:
            kind, key = case["objs"][i]
            table[i] = (Val if kind == "obj" else UVal)(key, i)
        return table[i]

    def py(c):
        t = c[0]
        if t == "s":
            return c[1]
        if t == "i":
            return int(c[1])
        if t == "b":
            return bool(c[1])
        if t == "d":
            return {}
        if t == "r":
            return range(int(c[1]))
        if t == "fn":
            return _gfn(int(c[1]))
        if t == "none":
            return None
        if t == "obj":
            return obj(int(c[1]))
        if t == "list":
            return [py(x) for x in c[1:]]
        if t == "tuple":
            return tuple(py(x) for x in c[1:])
        raise ValueError(c)

    fns = {e[0]: TermFn(e[1], e[0]) for e in case["entries"]}
    graph = {e[0]: (fns[e[0]], *[py(s) for s in e[2]], *e[3]) for e in case["entries"]}
    nst = {e[0]: len(e[2]) for e in case["entries"]}

    def canon(x, head=False):
        """observable form of a computation: futures by number, objects by repr (key#label), the rest by type+repr"""
        if isinstance(x, FakeFuture):
            return ["fut", str(x.n)]
        if isinstance(x, tuple):
            return ["tuple"] + [canon(y) for y in x]
        if isinstance(x, list):
            return ["list"] + [canon(y) for y in x]
        if isinstance(x, (Val, UVal)):
            return ["obj", repr(x)]
        if x is None:
            return ["obj", "None"]
        if isinstance(x, TermFn):
            return ["keep", f"t{x.name}"]
        if callable(x):
            return ["keep", getattr(x, "__name__", "fn")]
        return ["keep", type(x).__name__ + ":" + repr(x)]

    def resolve(x):
        if isinstance(x, FakeFuture):
            return x.obj
        if isinstance(x, tuple):
            return tuple(resolve(y) for y in x)
        if isinstance(x, list):
            return [resolve(y) for y in x]
        return x

    ndistinct = len({i for e in case["entries"] for s in e[2] for i in _obj_ids(s)})
    eqpairs = _equal_distinct_pairs(case)
    tags += ["scatter", f"scatter-n={len(graph)}", f"scatter-objs={min(ndistinct, 6)}",
             "scatter-equal-distinct-objects" if eqpairs else "scatter-no-equal-distinct-objects"]

    # ---- 1. the rewriting itself, observed before dask's fuse (fuse replaced by the identity for this call)
    client = FakeClient()
    real_fuse = dask.optimization.fuse
    dask.optimization.fuse = lambda d, *a, **kw: (d, {})
    try:
        pre = optimize_task_graph_for_dask_distributed(client, dict(graph))
    finally:
        dask.optimization.fuse = real_fuse
    want = {key: canon(v) for key, v in graph.items()}
    if not isinstance(pre, dict) or list(pre) != list(graph):
        mon.append({"cls": "scatter-changes-graph-keys", "what": f"keys {list(graph)} became {list(pre) if isinstance(pre, dict) else pre!r}"})
    else:
        for key in graph:
            got = canon(resolve(pre[key]))
            if got != want[key]:
                mon.append({"cls": "scatter-task-receives-other-static-input",
                            "what": f"[distributed dispatcher, optimize_task_graph_for_dask_distributed] task {key!r} is declared as "
                                    f"{graph[key]!r}; after scattering it is {pre[key]!r}, where the futures stand for "
                                    f"{client.store!r}: the task would receive {resolve(pre[key])[1:1 + nst[key]]!r} as static inputs"})
                break
        if drv is not None:
            m = drv.ask(["scatter", S_([[key, wire(graph_json)] for key, graph_json in _wire_entries(case)])])
            code = [S_([[key, canon(pre[key])] for key in graph]), S_([canon(o) for o in client.store])]
            if m != code:
                k.append(f"scatter: model {m} code {code}")

    # ---- 2. the graph as really returned (fused), futures replaced by their datum, evaluated by the dask graph rules
    client2 = FakeClient()
    out = optimize_task_graph_for_dask_distributed(client2, dict(graph))
    del LOG[:]
    memo = {}

    def ev(x, stack=()):
        if isinstance(x, FakeFuture):
            return x.obj
        if isinstance(x, tuple) and x and callable(x[0]):
            return x[0](*[ev(y, stack) for y in x[1:]])
        if isinstance(x, list):
            return [ev(y, stack) for y in x]
        if isinstance(x, tuple):
            return resolve(x)                    # a literal (non-task) tuple: its futures stand for their datum as well
        if isinstance(x, str) and x in out:
            if x not in memo:
                if x in stack:
                    raise RuntimeError("cycle")
                memo[x] = ev(out[x], stack + (x,))
            return memo[x]
        return x
    try:
        res = ["ok", ev("results")]
    except Exception as e:  # noqa
        if type(e).__name__ in ("CaseTimeout", "Timeout"):
            raise
        res = ["err", type(e).__name__ + ": " + str(e)[:100]]
    val = {}
    for e in case["entries"]:
        val[e[0]] = f"t{e[1]}(" + ",".join([render(py(s)) for s in e[2]] + [val[p] for p in e[3]]) + ")"
    ref = ["ok", val["results"]]
    if res != ref:
        mon.append({"cls": "scatter-result-differs", "what": f"[distributed dispatcher] the optimized graph {out!r} (futures: "
                                                             f"{client2.store!r}) evaluates to {res}; sequential evaluation of the declared graph gives {ref}"})
    elif sorted(LOG) != sorted(graph):
        mon.append({"cls": "call-count", "what": f"[distributed dispatcher] calls {sorted(LOG)} for tasks {sorted(graph)}"})
    return {"k": k, "mon": mon, "tags": tags, "nontrivial": len(graph) >= 3 and bool(eqpairs)}


def _obj_ids(c):
    if c[0] == "obj":
        return [int(c[1])]
    if c[0] in ("list", "tuple"):
        return [i for x in c[1:] for i in _obj_ids(x)]
    return []


def _equal_distinct_pairs(case):
    """is there a pair of distinct hashable objects with equal key used as static inputs?"""
    used = sorted({i for e in case["entries"] for s in e[2] for i in _obj_ids(s)})
    seen = set()
    for i in used:
        kind, key = case["objs"][i]
        if kind == "obj":
            if key in seen:
                return True
            seen.add(key)
    return False


def _wire_entries(case):
    """entries for the model: (key, (tuple fn static… preds…)) with objects as (obj key idx) / (obj none) etc."""
    objs = case["objs"]

    def w(c):
        t = c[0]
        if t == "obj":
            kind, key = objs[int(c[1])]
            return ["obj", ("v" if kind == "obj" else "u") + f"{key}#{c[1]}"]
        if t == "none":
            return ["obj", "None"]
        if t == "s":
            return ["keep", "str:" + repr(c[1])]
        if t == "i":
            return ["keep", "int:" + repr(int(c[1]))]
        if t == "b":
            return ["keep", "bool:" + repr(bool(c[1]))]
        if t == "d":
            return ["keep", "dict:{}"]
        if t == "r":
            return ["keep", "range:" + repr(range(int(c[1])))]
        if t == "fn":
            return ["keep", f"g{int(c[1])}"]
        return [t] + [w(x) for x in c[1:]]
    for e in case["entries"]:
        yield e[0], ["tuple", ["keep", f"t{e[1]}"]] + [w(s) for s in e[2]] + [["keep", "str:" + repr(p)] for p in e[3]]


def wire(x):
    return x


def S_(x):
    if isinstance(x, (list, tuple)):
        return [S_(y) for y in x]
    return str(x)
