"""C10, last clause: `remove_unused_parameters_and_rvs` removes exactly the parameters and random variables without
influence on any statement.  Case kind `unused` of harness/corr/c10.py.

K: `_get_unused_parameters_and_rvs(statements, parameters, rvs)` of the real code against `newDists` / `newParams` of
lean/PharmpyModel/C10/Unused.lean (driver op `unused`), the distributions being sent as pharmpy holds them (per
covariance entry: the names of its free symbols).  Monitors are decided on the real objects only.
"""
import random

THETAS = ["TH1", "TH2", "TH3"]


def gen_unused(rng: random.Random):
    """parameters, distributions (univariate, joint 2-4, shared variances as in IOV, compound entries) and statements
    that read a seeded subset of the variables / parameters"""
    params = [[t, round(rng.uniform(0.1, 2), 3), rng.random() < 0.2] for t in THETAS[: rng.randint(1, 3)]]
    dists = []
    neta = 0
    om = 0
    shared = []

    def new_om():
        nonlocal om
        om += 1
        name = f"OM{om}"
        params.append([name, round(rng.uniform(0.05, 0.5), 3), rng.random() < 0.15])
        return name

    for _ in range(rng.randint(1, 4)):
        r = rng.random()
        if r < 0.45:
            neta += 1
            if shared and rng.random() < 0.6:
                v = rng.choice(shared)  # an occasion re-using an existing variance parameter
            else:
                v = new_om()
                shared.append(v)
            expr = v if rng.random() < 0.85 else f"{v}*{rng.choice(['2', 'TH1'])}"
            dists.append(["n", f"ETA{neta}", expr])
        else:
            size = rng.randint(2, 4)
            names = []
            for _ in range(size):
                neta += 1
                names.append(f"ETA{neta}")
            diag = [rng.choice(shared) if shared and rng.random() < 0.25 else new_om() for _ in range(size)]
            mat = [[None] * size for _ in range(size)]
            for i in range(size):
                mat[i][i] = diag[i]
                for j in range(i):
                    u = rng.random()
                    if u < 0.35:
                        e = "0"
                    elif u < 0.85:
                        e = new_om()
                        # keep the block valid for any later numeric use: covariances are small
                        params[-1][1] = 0.001
                    else:
                        e = f"{diag[i]}*{diag[j]}/100"  # entry made of other entries' parameters
                    mat[i][j] = mat[j][i] = e
            dists.append(["j", names, mat])
    # a fixed-to-zero parameter and an unused theta now and then
    if rng.random() < 0.4:
        params.append(["ZF", 0, True])
    if rng.random() < 0.4:
        params.append(["THX", 1.5, False])
    etas = [d[1] for d in dists if d[0] == "n"] + [n for d in dists if d[0] == "j" for n in d[1]]
    pnames = [p[0] for p in params]
    readable = etas + pnames + ["WGT"]
    stmts = []
    lhs = ["A", "B", "C", "D", "Y"]
    for x in lhs[: rng.randint(1, 5)]:
        k = rng.randint(1, 3)
        terms = rng.sample(readable, min(k, len(readable)))
        if stmts and rng.random() < 0.5:
            terms.append(rng.choice(stmts)[1])
        op = rng.choice([" + ", "*"])
        stmts.append(["=", x, op.join(terms)])
    return {"kind": "unused", "params": params, "dists": dists, "stmts": stmts, "seed": rng.randrange(1 << 30)}


def corpus_unused():
    return [
        # two occasions sharing one variance, only the first read (the shape of the fourth seeded change)
        {"kind": "unused", "params": [["TH1", 1.0, False], ["OMIOV", 0.1, False]],
         "dists": [["n", "ETA1", "OMIOV"], ["n", "ETA2", "OMIOV"]], "stmts": [["=", "A", "TH1*ETA1"]], "seed": 1},
        # middle variable of a block unused
        {"kind": "unused", "params": [["TH1", 1.0, False], ["OM1", 0.1, False], ["OM2", 0.1, False], ["OM3", 0.1, False],
                                      ["OM4", 0.001, False], ["OM5", 0.001, False], ["OM6", 0.001, False], ["ZF", 0, True]],
         "dists": [["j", ["ETA1", "ETA2", "ETA3"], [["OM1", "OM4", "OM5"], ["OM4", "OM2", "OM6"], ["OM5", "OM6", "OM3"]]]],
         "stmts": [["=", "A", "TH1 + ETA1"], ["=", "Y", "A*ETA3"]], "seed": 2},
        # a variable not read but its covariance parameter is
        {"kind": "unused", "params": [["OM1", 0.1, False], ["OM2", 0.1, False], ["OM3", 0.001, False]],
         "dists": [["j", ["ETA1", "ETA2"], [["OM1", "OM3"], ["OM3", "OM2"]]]],
         "stmts": [["=", "A", "ETA1 + OM3"]], "seed": 3},
    ]


def shrink_unused(case):
    for key in ("stmts", "dists", "params"):
        xs = case[key]
        for i in range(len(xs)):
            if len(xs) <= 1 and key != "params":
                break
            c = dict(case)
            c[key] = xs[:i] + xs[i + 1:]
            yield c


# ------------------------------------------------------------------------------------------------ real side

def _build(case):
    from pharmpy.model import (Assignment, JointNormalDistribution, NormalDistribution, Parameter, Parameters,
                               RandomVariables, Statements)
    params = Parameters.create([Parameter.create(n, init=v, fix=bool(f)) for n, v, f in case["params"]])
    dists = []
    for d in case["dists"]:
        if d[0] == "n":
            dists.append(NormalDistribution.create(d[1], "iiv", 0, d[2]))
        else:
            dists.append(JointNormalDistribution.create(d[1], "iiv", [0] * len(d[1]), d[2]))
    rvs = RandomVariables.create(dists)
    sts = Statements([Assignment.create(x, e) for _, x, e in case["stmts"]])
    return sts, params, rvs


def _fs_names(expr):
    return sorted(s.name for s in expr.free_symbols)


def _dist_wire(d):
    from pharmpy.model import NormalDistribution
    if isinstance(d, NormalDistribution):
        return ["n", d.names[0], _fs_names(d.variance)]
    n = len(d.names)
    return ["j", list(d.names), [[_fs_names(d.variance[i, j]) for j in range(n)] for i in range(n)]]


def run_unused(case, drv):
    from pharmpy.modeling.common import _get_unused_parameters_and_rvs
    k, mon, tags = [], [], ["unused"]
    try:
        sts, params, rvs = _build(case)
    except Exception as e:  # the generated components are not a valid input of the constructors: not a case
        return {"k": [], "mon": [], "tags": ["unused-not-constructible:" + type(e).__name__], "nontrivial": False}
    symbols = sorted(s.name for s in sts.free_symbols)
    pw = [[p.name, bool(p.fix and p.init == 0)] for p in params]
    dw = [_dist_wire(d) for d in rvs]
    try:
        new_rvs, new_params = _get_unused_parameters_and_rvs(sts, params, rvs)
        real = [[_dist_wire(d) for d in new_rvs], [p.name for p in new_params]]
        err = None
    except Exception as e:
        real, err = None, f"{type(e).__name__}: {e}"
        mon.append({"cls": "unused-internal-error", "what": f"_get_unused_parameters_and_rvs raised {err}"})
    # ---- K
    if drv is not None and real is not None:
        ans = drv.ask(["unused", symbols, [[n, "true" if z else "false"] for n, z in pw], dw])
        model = [_norm(ans[0]), [str(x) for x in ans[1]]]
        if model != [_norm(real[0]), real[1]]:
            k.append(f"unused: model {model} code {real}")
    # ---- monitors on the real result
    if real is not None:
        pnames = {p.name for p in params}
        kept_p = set(real[1])
        removed_p = pnames - kept_p
        zero_fix = {n for n, z in pw if z}
        symset = set(symbols)
        new_rv_syms = set()
        new_rv_names = set()
        for d in new_rvs:
            new_rv_names |= set(d.names)
            new_rv_syms |= {s.name for s in d.free_symbols}
        old_rv_names = set(rvs.names)
        dang = sorted((new_rv_syms - new_rv_names) & removed_p)
        if dang:
            mon.append({"cls": "unused-rv-uses-removed-parameter",
                        "what": f"remaining random variables use removed parameters {dang}; kept {sorted(kept_p)}"})
        lost = sorted((symset & (pnames | old_rv_names)) - (kept_p | new_rv_names))
        if lost:
            mon.append({"cls": "unused-read-symbol-removed", "what": f"statements read {lost}, which were removed"})
        idle = sorted(p for p in kept_p if p not in symset and p not in new_rv_syms and p not in zero_fix)
        if idle:
            mon.append({"cls": "unused-parameter-kept-without-influence", "what": f"kept parameters {idle} occur nowhere"})
        for d in new_rvs:
            if len(d.names) == 1 and not ({s.name for s in d.free_symbols} & symset):
                mon.append({"cls": "unused-rv-kept-without-influence",
                            "what": f"univariate {d.names[0]} kept although no statement reads it or its variance"})
        if list(real[1]) != [p.name for p in params if p.name in kept_p]:
            mon.append({"cls": "unused-parameter-order-changed", "what": f"{real[1]}"})
        # model level: the public function on a generic model built from the same components
        try:
            from pharmpy.model import Model
            from pharmpy.modeling import remove_unused_parameters_and_rvs
            import pandas as pd
            from pharmpy.model import ColumnInfo, DataInfo
            di = DataInfo.create([ColumnInfo.create("ID", type="id"), ColumnInfo.create("WGT", type="covariate")])
            df = pd.DataFrame({"ID": [1, 1, 2], "WGT": [70.0, 70.0, 55.5]})
            m = Model.create(name="m", parameters=params, random_variables=rvs, statements=sts, datainfo=di, dataset=df)
            m2 = remove_unused_parameters_and_rvs(m)
            pub = [[_dist_wire(d) for d in m2.random_variables], [p.name for p in m2.parameters]]
            if [_norm(pub[0]), pub[1]] != [_norm(real[0]), real[1]]:
                mon.append({"cls": "unused-public-differs-from-private", "what": f"{pub} vs {real}"})
            if m2.statements != m.statements:
                mon.append({"cls": "unused-statements-changed", "what": "statements differ after removal"})
        except Exception as e:
            tags.append("unused-model-level-skipped:" + type(e).__name__)
    tags.append("unused-shared-variance" if len({d[2] for d in case["dists"] if d[0] == "n"}) < sum(1 for d in case["dists"] if d[0] == "n") else "unused-plain")
    return {"k": k, "mon": mon, "tags": tags, "nontrivial": real is not None and (set(p[0] for p in pw) != set(real[1]) or len(real[0]) != len(dw))}


def _norm(ds):
    out = []
    for d in ds:
        if str(d[0]) == "n":
            out.append(["n", str(d[1]), sorted(str(x) for x in d[2])])
        else:
            out.append(["j", [str(x) for x in d[1]], [[sorted(str(x) for x in e) for e in row] for row in d[2]]])
    return out
