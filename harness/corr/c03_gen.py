"""C03 generators: record-grammar-directed NM-TRAN control streams and a lexical mutator.

Every random choice comes from the `rng` passed in.  A template is a list of
tokens and glue markers:
    "~"  optional blank (may be empty)
    "_"  mandatory separation (blanks / tabs / NUL, newline + indent, comment + newline)
    "^"  end of line (newline, possibly preceded by a comment)
Code records use their own glue (continuations, comment lines, verbatim lines).
"""
from __future__ import annotations

import random
import re

NAMES = ["CL", "V", "KA", "TVCL", "TVV", "WGT", "APGR", "IPRED", "W", "S1", "F1", "ALAG1", "D1", "X", "Y2", "A_1"]
COLS = ["ID", "TIME", "AMT", "WGT", "APGR", "DV", "EVID", "CMT", "RATE", "MDV", "FA1", "FA2"]
WORDS = ["PHENOBARB", "SIMPLE", "MODEL", "run", "1", "base;x", "(test)", "$5", "two-comp", "\"q\"", "a=b", "&"]


def _ws(rng):
    r = rng.random()
    if r < 0.03:
        return rng.choice(["\x00 ", " \x00", " \x00 "])
    return rng.choice([" ", " ", " ", "  ", "\t", " \t", "   "])


def _comment(rng):
    return ";" + rng.choice(["", " TVCL", " a comment", ";; double", " $THETA in comment", " x=1", "\t tab", " &", " \"quoted\"", " é"])


def glue_opt(rng, kind):
    """Glue for records whose grammar ignores WS, COMMENT and NEWLINE."""
    r = rng.random()
    if kind == "~":
        return "" if r < 0.6 else _ws(rng)
    if kind == "^":
        return (_ws(rng) if r < 0.3 else "") + (_comment(rng) if rng.random() < 0.3 else "") + "\n"
    # "_"
    if r < 0.62:
        return _ws(rng)
    if r < 0.80:
        return "\n" + (_ws(rng) if rng.random() < 0.5 else "")
    if r < 0.92:
        return _ws(rng) + _comment(rng) + "\n" + (_ws(rng) if rng.random() < 0.5 else "")
    return "\n" + _comment(rng) + "\n"


def render_opt(rng, items):
    out = []
    for it in items:
        out.append(glue_opt(rng, it) if it in ("~", "_", "^") else it)
    return "".join(out)


def num(rng):
    return rng.choice(["0", "1", "2", "10", "0.5", ".5", "1.", "3.14", "1E-3", "2.5E+2", "-1", "+2", "-0.25", "1000000", "0.00469307", "1e2"])


def posnum(rng):
    return rng.choice(["1", "2", "0.5", ".1", "0.0309626", "1E-2", "4.", "0.013241", "10"])


# ------------------------------------------------------------------ option-like records

def rec_problem(rng):
    raw = rng.choice(["$PROBLEM", "$PROB", "$PRO", "$PROBLEM", "$problem"])
    title = " ".join(rng.choice(WORDS) for _ in range(rng.randint(0, 4)))
    s = raw + (_ws(rng) if title or rng.random() < 0.5 else "") + title + "\n"
    for _ in range(rng.choice([0, 0, 0, 1, 2])):
        s += rng.choice(["", " ", "\t"]) + rng.choice([_comment(rng), "", ""]) + "\n"
    return s


def rec_input(rng):
    raw = rng.choice(["$INPUT", "$INPUT", "$INP", "$INPT", "$input"])
    items = [raw]
    for c in rng.sample(COLS, rng.randint(1, 8)):
        items.append("_")
        r = rng.random()
        if r < 0.15:
            items += [c, "~", "=", "~", rng.choice(["DROP", "SKIP", "XX"])]
        elif r < 0.25:
            items += [rng.choice(["DROP", "OLD"]), "=", c]
        else:
            items.append(c)
    items.append("^")
    return render_opt(rng, items)


def rec_data(rng):
    raw = rng.choice(["$DATA", "$DATA", "$DAT", "$INFILE", "$INFI", "$data"])
    items = [raw, "_", rng.choice(["pheno.dta", "'my data.csv'", "\"a b.csv\"", "../d/x.csv", "*", "DUMMYPATH"])]
    opts = [["IGNORE", "~", "=", "~", "@"], ["IGNORE=@"], ["IGN=#"], ["IGNORE", "_", "C"], ["IGNORE=(ID.EQ.1)"],
            ["IGNORE", "~", "(", "~", "WGT", "~", ".GT.", "~", "3", "~", ",", "~", "APGR.LT.2", "~", ")"],
            ["ACCEPT=(DV.NE.0,TIME>2)"], ["NULL=."], ["NOWIDE"], ["CHECKOUT"], ["RECORDS=10"], ["REWIND"], ["LRECL=80"],
            ["IGNORE=(AMT==0)"], ["IGNORE=(ID.EQN.3)"], ["IGNORE='I'"], ["IGNORE=\"#\""]]
    for o in rng.sample(opts, rng.randint(0, 4)):
        items += ["_"] + o
    items.append("^")
    return render_opt(rng, items)


def rec_subs(rng):
    raw = rng.choice(["$SUBROUTINES", "$SUBROUTINE", "$SUBS", "$SUB", "$subr"])
    items = [raw]
    for o in rng.sample(["ADVAN1", "TRANS2", "ADVAN=ADVAN3", "TRANS=TRANS4", "TOL=5", "ADVAN13", "OTHER=x.f90"], rng.randint(1, 3)):
        items += ["_", o]
    items.append("^")
    return render_opt(rng, items)


def rec_abbr(rng):
    raw = rng.choice(["$ABBREVIATED", "$ABBR", "$ABB", "$ABBREV", "$abbr"])
    opts = [["REPLACE", " ", "ETA(CL)", "=", "ETA(1)"], ["REPLACE", "  ", "THETA(V)=THETA(2)"], ["DERIV2=NO"],
            ["DERIV2", "_", "NOCOMMON"], ["COMRES", "~", "=", "~", "2"], ["COMSAV=-1"], ["PROTECT"], ["NOFASTDER"], ["CHECKMU"],
            ["DES=COMPACT"], ["DECLARE", "_", "X", "~", "(", "~", "3", "~", ")"], ["DECLARE", "_", "INTEGER", "_", "I1", "~", ",", "~", "DOWHILE", "_", "J"],
            ["FUNCTION", "_", "BIVARIATE", "~", "(", "VBI", ",", "5", ")"], ["VECTOR", "_", "VQ", "(", "4", ")"], ["REPLACE", " ", "ETA_CL=ETA(1)"]]
    items = [raw]
    for o in rng.sample(opts, rng.randint(1, 3)):
        items += ["_"] + o
    items.append("^")
    return render_opt(rng, items)


def rec_model(rng):
    raw = rng.choice(["$MODEL", "$MOD", "$MODEL"])
    opts = [["COMP=(CENTRAL DEFDOSE)"], ["COMP", "~", "=", "~", "(DEPOT)"], ["COMP=(PERI)"], ["NCOMP=2"], ["COMPARTMENT=(A B)"], ["TOL=3"]]
    items = [raw]
    for o in rng.sample(opts, rng.randint(1, 3)):
        items += ["_"] + o
    items.append("^")
    return render_opt(rng, items)


def theta_item(rng):
    r = rng.random()
    fx = rng.choice(["FIX", "FIXED", "FIXE"])
    if r < 0.2:
        return [num(rng)]
    if r < 0.3:
        return [num(rng), "_", fx]
    if r < 0.45:
        return ["(", "~", "0", "~", ",", "~", posnum(rng), "~", ")"]
    if r < 0.6:
        return ["(", "~", "0", "~", ",", "~", posnum(rng), "~", ",", "~", "100", "~", ")"]
    if r < 0.68:
        return ["(", "~", posnum(rng), "_", fx, "~", ")"]
    if r < 0.75:
        return ["(", "0", ",", posnum(rng), ",", "50", ")", "_", fx]
    if r < 0.8:
        return ["(", "-INF", "~", ",", "~", num(rng), "~", ",", "~", rng.choice(["INF", "inf", "1000000"]), ")"]
    if r < 0.85:
        return ["(", "0", "~", ",", "~", ",", "~", "10", ")"]
    if r < 0.92:
        return ["(", posnum(rng), ")", rng.choice(["x2", "x3"])]
    if r < 0.96:
        return ["(", "0", ",", posnum(rng), ",", "9", ")", "x2"]
    return [rng.choice(["ABORT", "NOABORT", "NOABORTFIRST", "NUMBERPOINTS=3"])]


def rec_theta(rng):
    raw = rng.choice(["$THETA", "$THETA", "$THE", "$THET", "$theta"])
    items = [raw]
    for _ in range(rng.randint(1, 4)):
        items += ["_"] + theta_item(rng)
    items.append("^")
    return render_opt(rng, items)


def omega_item(rng):
    r = rng.random()
    fx = rng.choice(["FIX", "FIXED"])
    if r < 0.5:
        return [posnum(rng)]
    if r < 0.65:
        return [posnum(rng), "_", fx]
    if r < 0.75:
        return ["(", "~", posnum(rng), "_", fx, "~", ")"]
    if r < 0.82:
        return ["(", fx, "_", posnum(rng), ")"]
    if r < 0.9:
        return ["(", posnum(rng), ")", "x2"]
    if r < 0.95:
        return [posnum(rng), "_", rng.choice(["SD", "STANDARD", "VARIANCE"])]
    return ["(", posnum(rng), "_", "SD", ")"]


def rec_omega(rng, which=None):
    which = which or rng.choice(["OMEGA", "SIGMA"])
    raw = "$" + rng.choice({"OMEGA": ["OMEGA", "OMEGA", "OME", "OMEG", "omega"], "SIGMA": ["SIGMA", "SIGMA", "SIG", "sigma"]}[which])
    items = [raw]
    r = rng.random()
    sep = lambda: ["_"]
    if r < 0.45:
        if rng.random() < 0.2:
            items += ["_", rng.choice(["DIAGONAL", "DIAG"]), "~", "(", "~", "2", "~", ")"]
        for k in range(rng.randint(1, 3)):
            items += (["_"] if k == 0 or rng.random() < 0.8 else ["~", ",", "~"]) + omega_item(rng)
    elif r < 0.8:
        n = rng.choice([1, 2, 2, 3])
        if rng.random() < 0.2:
            items += ["_", rng.choice(["STANDARD", "CORRELATION", "CHOLESKY", "FIX", "VARIANCE"])]
        items += ["_", rng.choice(["BLOCK", "BLOCK", "BLO"]), "~", "(", "~", str(n), "~", ")"]
        if rng.random() < 0.2:
            items += ["_", rng.choice(["FIX", "SD", "CORR"])]
        for i in range(n * (n + 1) // 2):
            items += sep() + [posnum(rng) if rng.random() < 0.7 else "0.01"]
        if rng.random() < 0.15:
            items += ["_", "FIX"]
    elif r < 0.9:
        items += ["_", "BLOCK", "~", "(", "2", ")", "_", "SAME"] + (["(", "3", ")"] if rng.random() < 0.3 else [])
    elif r < 0.95:
        items += ["_", "BLOCK", "_", "SAME"]
    else:
        items += ["_", "BLOCK(3)", "_", "VALUES", "~", "(", "~", "0.1", "~", ",", "~", "0.01", "~", ")"] + (["_", "FIX"] if rng.random() < 0.5 else [])
    items.append("^")
    return render_opt(rng, items)


def rec_simple_opts(rng, raws, opts, lo=0, hi=5):
    items = [rng.choice(raws)]
    for o in rng.sample(opts, min(len(opts), rng.randint(lo, hi))):
        items += ["_"] + (o if isinstance(o, list) else [o])
    items.append("^")
    return render_opt(rng, items)


def rec_est(rng):
    return rec_simple_opts(rng, ["$ESTIMATION", "$EST", "$ESTIM", "$ESTM", "$estimation"],
                           [["METHOD", "~", "=", "~", "1"], "METH=COND", "INTERACTION", "INTER", "MAXEVAL=9999", "MAXEVALS=0", "PRINT=1", "POSTHOC",
                            "NOABORT", "MSFO=a.msf", "SIGDIGITS=3", "LAPLACE", "-2LL", "METHOD=IMP", "ISAMPLE=300", "NITER=10", "AUTO=1",
                            "FILE=psn.ext", "LIKE", "CENTERING"], 0, 6)


def rec_cov(rng):
    return rec_simple_opts(rng, ["$COVARIANCE", "$COV", "$COVR", "$COVA"], ["PRINT=E", "UNCONDITIONAL", "MATRIX=S", "PRECOND=1", "OMITTED"], 0, 3)


def rec_table(rng):
    return rec_simple_opts(rng, ["$TABLE", "$TAB", "$TABLE"], COLS[:6] + ["PRED", "CWRES", "NOPRINT", "ONEHEADER", "NOAPPEND", "FILE=sdtab1",
                                                                   "FORMAT=s1PE12.5", ["FILE", "~", "=", "~", "mytab"], "ETAS(1:LAST)", "ETA(1)", "FIRSTONLY"], 1, 8)


def rec_sim(rng):
    return rec_simple_opts(rng, ["$SIMULATION", "$SIM", "$SIMUL", "$SIML", "$SIMULATE"],
                           [["(", "~", "12345", "~", ")"], "SUBPROBLEMS=10", ["NSUB", "~", "=", "~", "2"], "ONLYSIMULATION", "ONLYSIM", "OMITTED", "PREDICTION"], 1, 4)


def rec_sizes(rng):
    return rec_simple_opts(rng, ["$SIZES", "$SIZ", "$SIZE"], ["LTH=50", "PD=-30", "LVR=35", "PC=40", "LIM1=2000", "ISAMPLEMAX=500"], 1, 3)


def rec_etas(rng):
    return rec_simple_opts(rng, ["$ETAS", "$ETA"], ["FILE=run1_input.phi", "FILE=x.phi"], 1, 1)


def rec_unknown(rng):
    raw = rng.choice(["$WARNINGS", "$MSFI", "$BIND", "$LEVEL", "$PRIOR", "$TH", "$MIX", "$XYZ", "$OMEGAP", "$THETAI", "$PK_", "$A[", "$CONTR",
                      "$INFN", "$ANNEAL", "$es", "$DESIGN", "$OM", "$THETAX", "$SUBSX", "$PROBLEMS", "$ab", "$P", "$pk"])
    body = rng.choice(["", " NONE", " a.msf\n", "\nNSPOP=2\nP(1)=THETA(1)\n", " DATA=(ID)", " \"unbalanced (\n", " ;only comment\n", " = = ( ) ,,\n",
                       " NWPRI NTHETA=4\n", "\t\x00x\n", " IF (A) THEN &\n", "\r\n"])
    if rng.random() < 0.6 and not body.endswith("\n"):
        body += "\n"
    return raw + body


# ------------------------------------------------------------------ code records

def code_atom(rng, depth):
    r = rng.random()
    if r < 0.3:
        return [rng.choice(NAMES)]
    if r < 0.42:
        return [rng.choice(["THETA", "ETA", "EPS", "ERR", "theta", "Eta"]), "~", "(", "~", str(rng.randint(1, 4)), "~", ")"]
    if r < 0.47:
        return [rng.choice(["OMEGA", "SIGMA"]), "(", "1", "~", ",", "~", "1", ")"]
    if r < 0.5:
        return [rng.choice(["A", "DADT", "A_0"]), "(", str(rng.randint(1, 3)), ")"]
    if r < 0.7 or depth > 2:
        return [rng.choice(["1", "2", "0.5", ".5", "1.", "1E-3", "2.5D0", "1D-2", "100", "70", "0"])]
    if r < 0.82:
        return [rng.choice(["EXP", "LOG", "SQRT", "ABS", "PHI", "exp", "DEXP", "GAMLN", "INT", "LOG10", "PEXP"]), "~", "("] + code_expr(rng, depth + 1) + [")"]
    if r < 0.86:
        return [rng.choice(["MOD", "DMOD"]), "("] + code_expr(rng, depth + 1) + ["~", ",", "~"] + code_expr(rng, depth + 1) + [")"]
    return ["(", "~"] + code_expr(rng, depth + 1) + ["~", ")"]


def code_expr(rng, depth=0):
    out = []
    if rng.random() < 0.1:
        out += [rng.choice(["-", "+"])]
    out += code_atom(rng, depth)
    for _ in range(rng.choice([0, 0, 1, 1, 2, 3]) if depth < 2 else rng.choice([0, 1])):
        out += ["~", rng.choice(["+", "-", "*", "/", "**", "*", "+"]), "~"] + code_atom(rng, depth + 1)
    return out


def code_cond(rng):
    rel = lambda: code_expr(rng, 2) + ["~", rng.choice([".GT.", ".LT.", ".EQ.", ".NE.", ".GE.", ".LE.", "==", "/=", ">", "<", ">=", "<=", " .gt. "]), "~"] + code_expr(rng, 2)
    out = rel()
    for _ in range(rng.choice([0, 0, 0, 1, 2])):
        out += ["~", rng.choice([".AND.", ".OR.", " .and. "]), "~"] + ([".NOT.", "~"] if rng.random() < 0.2 else []) + rel()
    return out


def code_assign(rng):
    lhs = rng.choice(NAMES + ["Y", "F", "IPRED", "A_0(1)", "DADT(1)", "S2", "ETA_X"])
    return [lhs, "~", "=", "~"] + code_expr(rng)


def code_glue(rng, kind):
    r = rng.random()
    if kind == "~":
        if r < 0.55:
            return ""
        if r < 0.9:
            return _ws(rng)
        if r < 0.96:
            return " &\n" + rng.choice(["", "  ", "\t", "     "])
        return " &" + rng.choice([" ", "\t"]) + "\n  "
    raise AssertionError(kind)


def code_eol(rng):
    r = rng.random()
    s = ""
    if r < 0.25:
        s += rng.choice(["", " ", "\t"]) + _comment(rng)
    elif r < 0.35:
        s += _ws(rng)
    s += "\n"
    while rng.random() < 0.2:
        s += rng.choice(["", "  ", "\t", _comment(rng), "   " + _comment(rng)]) + "\n"
    return s


def code_lines(rng, depth, n):
    """list of statement token-lists (each ends with an EOL string)."""
    out = []
    for _ in range(n):
        r = rng.random()
        ind = rng.choice(["", "", "  ", "\t", "      "]) if depth == 0 else "  " * depth
        if r < 0.55:
            out.append([ind] + code_assign(rng) + [("EOL",)])
        elif r < 0.65:
            out.append([ind, rng.choice(["IF", "if", "If"]), "~", "(", "~"] + code_cond(rng) + ["~", ")", rng.choice([" ", "  ", " &\n   "])] +
                       (code_assign(rng) if rng.random() < 0.85 else rng.choice([["EXIT", " ", "1", " ", "5"], ["CALL", " ", "RANDOM", "(", "2", ",", "R", ")"]])) + [("EOL",)])
        elif r < 0.78 and depth < 2:
            out.append([ind, rng.choice(["IF", "if"]), "~", "(", "~"] + code_cond(rng) + ["~", ")", rng.choice([" ", "", "\t"]), rng.choice(["THEN", "then"]), ("EOL",)])
            out += code_lines(rng, depth + 1, rng.randint(0, 2))
            for _ in range(rng.choice([0, 0, 1])):
                out.append([ind, rng.choice(["ELSE IF", "ELSEIF", "else if"]), "~", "(", "~"] + code_cond(rng) + ["~", ")", " ", "THEN", ("EOL",)])
                out += code_lines(rng, depth + 1, rng.randint(0, 2))
            if rng.random() < 0.5:
                out.append([ind, rng.choice(["ELSE", "else"]), ("EOL",)])
                out += code_lines(rng, depth + 1, rng.randint(0, 2))
            out.append([ind, rng.choice(["ENDIF", "END IF", "endif"]), ("EOL",)])
        elif r < 0.81 and depth < 2:
            out.append([ind, rng.choice(["DO WHILE", "DOWHILE"]), "~", "(", "~"] + code_cond(rng) + ["~", ")", ("EOL",)])
            out += code_lines(rng, depth + 1, rng.randint(0, 2))
            out.append([ind, rng.choice(["ENDDO", "END DO"]), ("EOL",)])
        elif r < 0.89 and depth == 0:
            out.append([rng.choice(["\"", "\" ", "\"  "]) + rng.choice(["FIRST", "LAST", "MAIN", " COMMON /PRCOMG/ IDUM1", "  X = 1 ; not a comment", " USE SIZES, ONLY: DPSIZE", "&", ""]), ("VEOL",)])
        elif r < 0.92:
            out.append([ind, rng.choice(["EXIT", "EXIT 1", "EXIT 2 7", "RETURN"]), ("EOL",)])
        else:
            out.append([ind] + code_assign(rng) + [("EOL",)])
    return out


def rec_code(rng, name=None):
    name = name or rng.choice(["PK", "PRED", "ERROR", "DES"])
    raw = "$" + rng.choice({"PK": ["PK", "PK", "pk"], "PRED": ["PRED", "PRE", "pred"], "ERROR": ["ERROR", "ERR", "ERRO", "error"], "DES": ["DES", "des"]}[name])
    s = raw
    r = rng.random()
    if r < 0.7:
        s += rng.choice(["", " ", "\t"]) + (_comment(rng) if rng.random() < 0.2 else "") + "\n"
    elif r < 0.8:
        s += " "          # first statement on the record line
    else:
        s += rng.choice(["\n\n", " \n;c\n\n"])
    if rng.random() < 0.08:
        s += rng.choice(["(ONLY OBSERVATIONS)", "(OBSERVATION ONLY)", "(NEWIND.NE.2)", "( ONLY  OBS )"]) + "\n"
    for line in code_lines(rng, 0, rng.randint(0, 6)):
        for t in line:
            if t == "~":
                s += code_glue(rng, "~")
            elif t == ("EOL",):
                s += code_eol(rng)
            elif t == ("VEOL",):
                s += "\n"
            else:
                s += t
    if rng.random() < 0.12 and s.endswith("\n") and not s.endswith("\n\n") and "\n" in s[:-1]:
        s = s[:-1]       # no newline at end of record / file
    return s


# ------------------------------------------------------------------ whole control streams

RECORD_GENS = [
    (rec_problem, 3), (rec_input, 3), (rec_data, 3), (rec_subs, 2), (rec_abbr, 2), (rec_model, 1), (rec_code, 8), (rec_theta, 5),
    (rec_omega, 6), (rec_est, 3), (rec_cov, 1), (rec_table, 2), (rec_sim, 1), (rec_sizes, 1), (rec_etas, 1), (rec_unknown, 4),
]


def gen_stream(rng, ordered=None):
    """A control stream: either in the usual NM-TRAN order or a random bag of records."""
    ordered = rng.random() < 0.5 if ordered is None else ordered
    recs = []
    if ordered:
        if rng.random() < 0.15:
            recs.append(rec_sizes(rng))
        recs.append(rec_problem(rng))
        recs.append(rec_input(rng))
        recs.append(rec_data(rng))
        if rng.random() < 0.3:
            recs.append(rec_abbr(rng))
        if rng.random() < 0.5:
            recs.append(rec_subs(rng))
            if rng.random() < 0.3:
                recs.append(rec_model(rng))
            recs.append(rec_code(rng, "PK"))
            if rng.random() < 0.3:
                recs.append(rec_code(rng, "DES"))
            recs.append(rec_code(rng, "ERROR"))
        else:
            recs.append(rec_code(rng, "PRED"))
        for _ in range(rng.randint(1, 3)):
            recs.append(rec_theta(rng))
        for _ in range(rng.randint(1, 3)):
            recs.append(rec_omega(rng, "OMEGA"))
        for _ in range(rng.randint(1, 2)):
            recs.append(rec_omega(rng, "SIGMA"))
        if rng.random() < 0.2:
            recs.append(rec_sim(rng))
        for _ in range(rng.randint(0, 2)):
            recs.append(rec_est(rng))
        if rng.random() < 0.4:
            recs.append(rec_cov(rng))
        for _ in range(rng.randint(0, 2)):
            recs.append(rec_table(rng))
        if rng.random() < 0.3:
            recs.insert(rng.randrange(len(recs) + 1), rec_unknown(rng))
    else:
        gens = [g for g, w in RECORD_GENS for _ in range(w)]
        for _ in range(rng.randint(1, 7)):
            recs.append(rng.choice(gens)(rng))
    # records need a line start: make every record but the last end with a newline
    out = ""
    r = rng.random()
    if r < 0.12:
        out += rng.choice([";; 1. Based on: 5\n", "; comment\n;; x\n", "free text before\n", "\n", "  \n\n", "\x00\n", ";no newline $PROBLEM\n"])
    for i, rec in enumerate(recs):
        if out and not out.endswith("\n"):
            out += "\n"
        if rng.random() < 0.08:
            out += rng.choice([" ", "  ", "\t", " \t"])
        out += rec
    if rng.random() < 0.06:
        # a bare record name as the very last thing of the file: a record without any content (no option, blank or line break)
        if out and not out.endswith("\n"):
            out += "\n"
        out += "$" + rng.choice(BARE_LAST)
    return out


BARE_LAST = ["COVARIANCE", "COV", "cov", "ESTIMATION", "EST", "est", "TABLE", "SIMULATION", "SIM", "Cova"]


# ------------------------------------------------------------------ lexical mutation

ABBREVIABLE = ["PROBLEM", "INPUT", "DATA", "SUBROUTINES", "SUBROUTINE", "ABBREVIATED", "MODEL", "PRED", "ERROR", "THETA", "OMEGA", "SIGMA",
               "ESTIMATION", "COVARIANCE", "TABLE", "SIMULATION", "SIZES"]
NASTY = [" ", "\t", "\x00", "\r", "\n", "\r\n", ";", "&", "$", "\"", "(", ")", "=", ",", "'", "x", "1", ".", "\x0b", "\x0c", "\xa0", "é", " ", "\\", "[", "_", "@", "#", "*", "!"]


def mutate(rng, text, n=None):
    """Lexical mutations; returns (text, [mutation tags])."""
    tags = []
    n = n if n is not None else rng.choice([1, 1, 2, 3, 5])
    for _ in range(n):
        r = rng.random()
        if r < 0.12:
            text = text.replace("\r\n", "\n").replace("\n", "\r\n")
            tags.append("crlf-all")
        elif r < 0.18:
            idx = [m.start() for m in re.finditer("\n", text)]
            for i in sorted(rng.sample(idx, min(len(idx), rng.randint(1, 3))), reverse=True):
                if i == 0 or text[i - 1] != "\r":
                    text = text[:i] + "\r" + text[i:]
            tags.append("crlf-some")
        elif r < 0.30:
            idx = [m.start() for m in re.finditer(r"[ \t]", text)]
            if idx:
                i = rng.choice(idx)
                text = text[:i] + rng.choice(["\t", "  ", "\x00", " \t ", "\x00\x00"]) + text[i + (1 if rng.random() < 0.5 else 0):]
                tags.append("ws")
        elif r < 0.42:
            idx = [m.start() for m in re.finditer(r"\r?\n", text)]
            if idx:
                i = rng.choice(idx)
                text = text[:i] + rng.choice(["", " ", "\t"]) + _comment(rng) + text[i:]
                tags.append("comment-eol")
        elif r < 0.50:
            idx = [m.end() for m in re.finditer(r"\n", text)]
            if idx:
                i = rng.choice(idx)
                text = text[:i] + rng.choice(["\n", "  \n", _comment(rng) + "\n", "\t" + _comment(rng) + "\n", "\n\n"]) + text[i:]
                tags.append("blank-or-comment-line")
        elif r < 0.60:
            ms = list(re.finditer(r"^([ \t]*\$)([A-Za-z]+)", text, flags=re.M))
            if ms:
                m = rng.choice(ms)
                name = m.group(2)
                up = name.upper()
                full = [a for a in ABBREVIABLE if a.startswith(up)]
                choice = rng.random()
                if choice < 0.5 and len(name) > 3:
                    new = name[:rng.randint(3, len(name))]
                    tags.append("abbrev-3" if len(new) == 3 else "abbrev")
                elif choice < 0.7:
                    new = name.lower() if name.isupper() else name.upper()
                    tags.append("case")
                elif choice < 0.85 and full:
                    new = full[0]
                    tags.append("unabbrev")
                else:
                    new = name[:2]
                    tags.append("abbrev-2")
                text = text[:m.start(2)] + new + text[m.end(2):]
        elif r < 0.66:
            ms = list(re.finditer(r"^[ \t]*\$", text, flags=re.M))
            if ms:
                m = rng.choice(ms)
                text = text[:m.start()] + rng.choice([" ", "\t", "   "]) + text[m.start():]
                tags.append("indent-record")
        elif r < 0.72:
            # continuation inside a code record
            ms = list(re.finditer(r"^[ \t]*\$(PK|PRED|ERR|ERROR|DES)\b", text, flags=re.M | re.I))
            if ms:
                m = rng.choice(ms)
                end = re.compile(r"^[ \t]*\$", re.M).search(text, m.end())
                stop = end.start() if end else len(text)
                idx = [k.start() for k in re.finditer(r"[ =+*()]", text[m.end():stop])]
                if idx:
                    i = m.end() + rng.choice(idx)
                    text = text[:i] + rng.choice([" &\n ", "&\n", " & \n\t"]) + text[i:]
                    tags.append("continuation")
        elif r < 0.78:
            i = rng.randrange(len(text) + 1)
            text = text[:i] + rng.choice(NASTY) + text[i:]
            tags.append("insert-char")
        elif r < 0.82:
            if text:
                i = rng.randrange(len(text))
                text = text[:i] + text[i + 1:]
                tags.append("delete-char")
        elif r < 0.87:
            ms = [m.start() for m in re.finditer(r"^[ \t]*\$", text, flags=re.M)] + [len(text)]
            i = rng.choice(ms)
            pre = "" if i == 0 or text[i - 1] == "\n" else "\n"
            text = text[:i] + pre + rec_unknown(rng) + ("" if rng.random() < 0.2 else "\n") * (0 if text[i:i + 1] == "" else 1) + text[i:]
            tags.append("insert-unknown-record")
        elif r < 0.92:
            ms = [m.start() for m in re.finditer(r"^[ \t]*\$", text, flags=re.M)]
            if len(ms) >= 1:
                k = rng.randrange(len(ms))
                a, b = ms[k], (ms[k + 1] if k + 1 < len(ms) else len(text))
                chunk = text[a:b]
                if chunk.endswith("\n"):
                    text = text[:b] + chunk + text[b:]
                    tags.append("duplicate-record")
        elif r < 0.96:
            text = rng.choice([";; 1. Based on: 5\n", "text before\n", "\n\n", " \t\n", ";c"]) + text
            tags.append("text-before-first")
        else:
            if text.endswith("\n"):
                text = text[:-1]
                tags.append("strip-final-newline")
            else:
                text += rng.choice(["\n", "\n\n", " "])
                tags.append("append-newline")
    return text, tags


def layout_mutate(rng, text, n=None):
    """Mutations meant to keep a valid model valid (layout only)."""
    tags = []
    n = n if n is not None else rng.choice([0, 1, 2, 3])
    for _ in range(n):
        r = rng.random()
        if r < 0.25:
            idx = [m.start() for m in re.finditer(r"(?<=[A-Za-z0-9)]) (?=[A-Za-z0-9(])", text)]
            if idx:
                i = rng.choice(idx)
                text = text[:i] + rng.choice(["  ", "\t", " \t", "   "]) + text[i + 1:]
                tags.append("ws")
        elif r < 0.45:
            idx = [m.start() for m in re.finditer(r"\n", text)]
            if idx:
                i = rng.choice(idx)
                line_start = text.rfind("\n", 0, i) + 1
                if not text[line_start:i].lstrip().startswith(("$PROB", "\"")) and ";" not in text[line_start:i]:
                    text = text[:i] + rng.choice([" ", "\t", ""]) + rng.choice(["; note", ";", ";; x", "; TVCL"]) + text[i:]
                    tags.append("comment-eol")
        elif r < 0.6:
            ms = [m.start() for m in re.finditer(r"^\$", text, flags=re.M)]
            if ms:
                i = rng.choice(ms)
                text = text[:i] + rng.choice(["\n", ";comment line\n", "\n\n"]) + text[i:]
                tags.append("blank-or-comment-line-between-records")
        elif r < 0.75:
            ms = list(re.finditer(r"^\$([A-Za-z]+)", text, flags=re.M))
            if ms:
                m = rng.choice(ms)
                name = m.group(1)
                if len(name) > 3 and name.upper() not in ("PRED",):
                    new = name[:rng.randint(3, len(name))] if rng.random() < 0.6 else name.lower()
                    text = text[:m.start(1)] + new + text[m.end(1):]
                    tags.append("abbrev-or-case")
        elif r < 0.85:
            ms = [m.start() for m in re.finditer(r"^\$", text, flags=re.M)]
            if ms:
                i = rng.choice(ms)
                text = text[:i] + rng.choice([" ", "  ", "\t"]) + text[i:]
                tags.append("indent-record")
        elif r < 0.90:
            text = rng.choice([";; 1. Based on: 5\n", ";; 2. Description: x\n", "\n"]) + text
            tags.append("text-before-first")
        elif r < 0.96:
            if not re.search(r"^[ \t]*\$SIZ", text, flags=re.M | re.I):
                text = gen_sizes(rng) + text
                tags.append("sizes-before-problem")
        else:
            text = text.replace("\r\n", "\n").replace("\n", "\r\n")
            tags.append("crlf-all")
    return text, tags


# ------------------------------------------------------------------ valid model skeletons

def gen_sizes(rng):
    """$SIZES (a record that stands before the first $PROBLEM) with several options in random order."""
    opts = [f"LTH={rng.choice([3, 40, 60, 100, 101, 150])}", f"LVR={rng.choice([30, 40, 35])}", f"PD={rng.choice([-100, 70, -30])}",
            f"PC={rng.choice([10, 30, 31, 40])}", "LIM1=2000", "ISAMPLEMAX=500", "LNP4=4000", f"PDT={rng.choice([-100, 50])}", "DIMQ=100000",
            "MAXIDS=5000", f"LTV={rng.choice([50, 120])}"]
    rng.shuffle(opts)
    opts = opts[:rng.randint(1, 5)]
    raw = rng.choice(["$SIZES", "$SIZES", "$SIZ", "$SIZE", "$sizes"])
    sep = lambda: rng.choice([" ", " ", "  ", "\t", "\n  ", " ; c\n "])
    out = raw
    for o in opts:
        out += sep() + (o if rng.random() < 0.85 else o.replace("=", rng.choice([" = ", "= ", " ="])))
    out += rng.choice(["", "", " ; sizes comment", "  "]) + "\n"
    if rng.random() < 0.15:
        out += rng.choice(["\n", ";after sizes\n"])
    return out


def gen_model(rng):
    """A small valid model (dataset file does not exist: reading skips it)."""
    nth = rng.randint(1, 4)
    neta = rng.randint(1, 3)
    pred = rng.random() < 0.4
    abbr = rng.random() < 0.12
    s = ""
    if rng.random() < 0.25:
        s += rng.choice([";; 1. Based on: 5\n", ";; 2. Description: PHENOBARB\n;; x1. Author: user\n", "; free comment\n", "\n"])
    if rng.random() < 0.45:
        s += gen_sizes(rng)
    s += rng.choice(["$PROBLEM ", "$PROB  ", "$PROBLEM    "]) + rng.choice(["PHENOBARB SIMPLE MODEL", "run 1", "x ; y"]) + "\n"
    cols = ["ID", "TIME", "AMT", "WGT", "APGR", "DV"]
    s += rng.choice(["$INPUT ", "$INPUT  ", "$INP "]) + rng.choice([" ", "  ", "\n  "]).join(cols) + "\n"
    s += "$DATA " + rng.choice(["nonexistent_c03.csv", "'no such file.csv'"]) + " IGNORE=@\n"
    eta = (lambda i: f"ETA({i})")
    if rng.random() < 0.15:
        s += rng.choice(["$ABBR DERIV2=NO\n", "$ABBREVIATED COMRES=2  PROTECT ; keep\n", "$ABB DERIV2=NOCOMMON\n\n", "$ABBREVIATED NOFASTDER\n"])
    if abbr:
        for i in range(1, neta + 1):
            s += f"$ABBR REPLACE ETA_P{i}=ETA({i})\n"
        eta = (lambda i: f"ETA_P{i}")
    cm = lambda: rng.choice(["", "", " ; c", "\t;  note"])
    body = ""
    pars = []
    for i in range(1, nth + 1):
        nm = ["CL", "V", "KA", "Q"][i - 1]
        e = f"*EXP({eta(i)})" if i <= neta else ""
        sp = rng.choice(["", " "])
        body += rng.choice(["", "  ", "\t"]) + f"{nm}{sp}={sp}THETA({i}){e}{cm()}\n"
        pars.append(nm)
        if rng.random() < 0.2:
            body += rng.choice(["\n", ";comment line\n", "  ; indented comment\n", "\"  VERBATIM LINE\n"])
    if rng.random() < 0.3:
        body += f"IF (WGT.GT.{rng.randint(1, 5)}) THEN\n  {pars[0]} = {pars[0]}*1.5\nELSE\n  {pars[0]} = {pars[0]}*0.5{cm()}\nENDIF\n"
    if rng.random() < 0.3:
        body += f"IF (APGR.LT.5) {pars[-1]} = {pars[-1]} + THETA(1)\n"
    err = rng.choice(["Y = F + F*EPS(1)", "Y=F+EPS(1)", "W = F\nY = F + W*EPS(1)", "IPRED = F\nY = IPRED*(1+EPS(1))"]) + cm() + "\n"
    if pred:
        s += "$PRED" + cm() + "\n" + body + "F = " + "+".join(pars) + "\n" + err
    else:
        s += rng.choice(["$SUBROUTINES ADVAN1 TRANS2\n", "$SUBROUTINE ADVAN1 TRANS2\n", "$SUBS ADVAN1  TRANS2\n"])
        pk = body
        if "CL" not in pars:
            pk += "CL = 1\n"
        if "V" not in pars:
            pk += "V = THETA(1)*2\n"
        pk += "S1" + rng.choice(["=", " = "]) + "V\n"
        s += "$PK" + cm() + "\n" + pk + rng.choice(["", "\n"]) + "$ERROR\n" + err
    if rng.random() < 0.5:
        s += "\n"
    for i in range(1, nth + 1):
        form = rng.choice(["({lo},{v})", "({lo}, {v}, {up})", "{v}", "({v})", "{v} FIX", "({lo},{v},{up}) ; TV{n}", "{v} ; {n}", "(0,{v})  ; x"])
        v = rng.choice(["0.1", "1", "0.00469307", "1.00916", "2.5", "1E-1"])
        line = form.format(lo="0", v=v, up=rng.choice(["10", "100", "1E3"]), n=["CL", "V", "KA", "Q"][i - 1])
        if i > 1 and rng.random() < 0.3 and ";" not in s[s.rstrip("\n").rfind("\n") + 1:]:
            s = s.rstrip("\n") + " " + line + "\n"
        else:
            s += rng.choice(["$THETA ", "$THETA  ", "$THETA\t"]) + line + "\n"
    if neta >= 2 and rng.random() < 0.35:
        s += "$OMEGA BLOCK(2)" + rng.choice([" ", "\n"]) + "0.1" + cm() + "\n 0.01 0.1" + cm() + "\n"
        rest = neta - 2
    else:
        rest = neta
    for i in range(rest):
        s += rng.choice(["$OMEGA ", "$OMEGA  "]) + rng.choice(["0.0309626", "0.1", "0.5 FIX", "(0.2)"]) + rng.choice(["", "  ; IVCL", " ;x"]) + "\n"
    s += rng.choice(["$SIGMA ", "$SIGMA  "]) + rng.choice(["0.013241", "1 FIX", "0.1 ; RUV"]) + "\n"
    if rng.random() < 0.1:
        s += rng.choice(["$MSFI old.msf\n", "$MSFI  msf1 NOMSFTEST\n", "$WARNINGS NONE\n", "$PRIOR NWPRI ; raw record\n"])
    if rng.random() < 0.15:
        s += rng.choice(["$SIMULATION (12345) SUBPROBLEMS=2\n", "$SIM  (1) ONLYSIM\n", "$SIMULATION (771)  (99) NSUB = 3 ; sim\n", "$SIMUL (5)\n"])
    if rng.random() < 0.12:
        s += rng.choice(["$ETAS FILE=/nonexistent_c03_dir/run1.phi\n", "$ETAS  FILE=/nonexistent_c03_dir/x.phi ; start etas\n"])
    if rng.random() < 0.85:
        for _ in range(rng.choice([1, 1, 1, 2, 3])):
            s += rng.choice(["$ESTIMATION METHOD=1 INTERACTION", "$EST METHOD=1 INTER MAXEVALS=9999 PRINT=1", "$ESTIMATION METHOD=0",
                             "$ESTIMATION METH=COND  INTER   MAXEVAL=99", "$ESTIM METHOD=IMP INTERACTION ISAMPLE=300 NITER=10",
                             "$EST METH=SAEM NBURN=100 NITER=50 PRINT=5", "$ESTIMATION METHOD=1 INTER MAXEVAL=0 POSTHOC  NOABORT SIGDIGITS=3 MSFO=msf1",
                             "$ESTIMATION METHOD=COND LAPLACE -2LL\n  MAXEVAL=9999 ; second line", "$estimation method=1 inter",
                             "$EST METHOD=1 INTER FILE=psn.ext SIGL=9 NSIG=3"]) + cm() + "\n"
    if rng.random() < 0.45:
        s += rng.choice(["$COVARIANCE UNCONDITIONAL\n", "$COV\n", "$COVARIANCE PRINT=E\n", "$COV MATRIX=S ; s matrix\n", "$COVR  UNCOND  PRINT=E\n",
                         "$COVARIANCE MATRIX=R UNCONDITIONAL PRINT=E PRECOND=1\n", "$COV OMITTED\n"])
    for _ in range(rng.choice([0, 1, 1, 2])):
        s += rng.choice(["$TABLE ID TIME DV " + rng.choice(["PRED", "CWRES", "CL"]) + " NOPRINT ONEHEADER FILE=sdtab1\n",
                         "$TAB ID  TIME\n  DV PRED ; cols\n  NOAPPEND NOPRINT FILE=mytab FORMAT=s1PE12.5\n",
                         "$TABLE ID ETAS(1:LAST) FIRSTONLY NOPRINT FILE = patab1\n", "$table id dv noprint file=lower.tab\n",
                         "$TABLE ID TIME IPRED=CIPRED NOPRINT ONEHEADER FILE=run1.tab RFORMAT=\"(1PE16.9,300(1PE24.16))\"\n"])
    if rng.random() < 0.1:
        s = s.rstrip("\n")     # no final newline
        if rng.random() < 0.4:
            s += "\n$" + rng.choice(["COVARIANCE", "COV", "cov", "TABLE"])     # bare record name at the end of the file
    return s


# ------------------------------------------------------------------ models for edit chains

def _interleaved(rng, counter, allow_verbatim=True, indent=""):
    """0-3 non-statement lines: standalone comment lines, verbatim lines, blank lines (each comment/verbatim is unique)."""
    out = ""
    for _ in range(rng.choice([0, 1, 1, 1, 2, 3])):
        counter[0] += 1
        r = rng.random()
        if r < 0.45:
            out += indent + rng.choice(["; --- note %d ---", ";c%d", ";; section %d", "  ; indented %d", ";%d $THETA in comment"]) % counter[0] + "\n"
        elif r < 0.7 and allow_verbatim:
            out += rng.choice(["\"  WRITE (*,*) %d", "\" X%d = 1 ; not a comment", "\"FIRST%d"]) % counter[0] + "\n"
        else:
            out += rng.choice(["\n", "\n", "  \n", "\t\n"])
    return out


def gen_chain_model(rng):
    """A valid model whose code records carry comment / verbatim / blank lines in every position:
    before the first statement, before and between statements, inside a block IF, at the end of the record."""
    counter = [0]
    nth = rng.randint(2, 4)
    neta = rng.randint(1, min(2, nth))
    pred = rng.random() < 0.5
    names = ["TVCL", "TVV", "TVKA", "TVQ"][:nth]
    s = rng.choice(["$PROBLEM chain\n", "$PROB  edit chain ; title\n"])
    s += "$INPUT ID TIME AMT WGT APGR DV\n$DATA nonexistent_c03.csv IGNORE=@\n"
    eol = lambda: rng.choice(["", "", "", " ; eol %d" % rng.randint(100, 999), "\t;x"])
    sp = lambda: rng.choice(["", " "])
    body = ""
    for i, nm in enumerate(names, start=1):
        body += _interleaved(rng, counter)
        a = sp()
        body += rng.choice(["", "", "  "]) + f"{nm}{a}={a}THETA({i})" + rng.choice(["", "*WGT", "*2"]) + eol() + "\n"
    body += _interleaved(rng, counter)
    pars = []
    for i, (nm, p) in enumerate(zip(names, ["CL", "V", "KA", "Q"]), start=1):
        if rng.random() < 0.6:
            body += _interleaved(rng, counter)
        e = f"*EXP(ETA({i}))" if i <= neta else ""
        body += f"{p} = {nm}{e}" + eol() + "\n"
        pars.append(p)
    if rng.random() < 0.5:
        body += _interleaved(rng, counter)
        body += f"IF (APGR.LT.{rng.randint(2, 9)}) THEN" + eol() + "\n"
        body += _interleaved(rng, counter, allow_verbatim=False, indent="  ")
        body += f"  BLK1 = {pars[0]}*1.5" + eol() + "\n"
        body += _interleaved(rng, counter, allow_verbatim=False, indent="  ")
        body += f"  BLK2 = 2\nELSE\n  BLK1 = {pars[0]}\n"
        body += _interleaved(rng, counter, allow_verbatim=False, indent="  ")
        body += "  BLK2 = 3\nENDIF\n"
    if rng.random() < 0.3:
        body += _interleaved(rng, counter)
        body += f"IF (WGT.GT.{rng.randint(1, 5)}) LGC = {pars[-1]} + 1" + eol() + "\n"
    err = _interleaved(rng, counter)
    err += rng.choice(["IPRED = F\n", "IPRED = F ; ipred\n"])
    err += _interleaved(rng, counter)
    err += "W = " + rng.choice(["F", "IPRED", "IPRED*0.1"]) + eol() + "\n"
    err += _interleaved(rng, counter)
    err += "Y = IPRED + W*EPS(1)" + eol() + "\n"
    err += _interleaved(rng, counter)
    if pred:
        s += "$PRED" + rng.choice(["\n", " ; pred\n", "\n\n"]) + body
        s += _interleaved(rng, counter) + "F = " + "+".join(pars) + eol() + "\n" + err
    else:
        s += "$SUBROUTINES ADVAN1 TRANS2\n$PK" + rng.choice(["\n", " ; pk\n"]) + body
        if "V" not in pars:
            s += "V = 3\n"
        s += _interleaved(rng, counter) + "S1 = V\n" + _interleaved(rng, counter)
        s += "$ERROR" + rng.choice(["\n", "\n\n", " ; err\n"]) + err
    for i in range(1, nth + 1):
        s += f"$THETA (0,{rng.choice(['0.1', '1', '2.5'])}) ; TH{i}\n"
    for i in range(neta):
        s += "$OMEGA 0.1\n"
    s += "$SIGMA 0.1\n$ESTIMATION METHOD=1 INTER\n"
    # the chain: 2-4 steps of 1-2 statement edits
    steps = []
    for _ in range(rng.randint(2, 4)):
        step = []
        for _ in range(rng.choice([1, 1, 2])):
            r = rng.random()
            if r < 0.55:
                step.append(["mod", rng.randrange(64), rng.choice(["*2", "+1", "*WGT", "-0.5"])])
            elif r < 0.8:
                step.append(["ins", rng.randrange(64)])
            else:
                step.append(["del", rng.randrange(64)])
        steps.append(step)
    return s, steps


# ------------------------------------------------------------------ option appended to an option record (OptionRecord.append_option)

# canonical record kind -> options that pharmpy itself appends to such a record ((key, value) pairs)
APPEND_OPTS = {
    "INPUT": [("WT", None), ("AGE", None), ("OCC", "DROP"), ("SEX", None)],
    "SUBROUTINES": [("TOL", "9"), ("TRANS1", None), ("ADVAN6", None), ("ATOL", "6")],
    "TABLE": [("CWRES", None), ("IPRED", None), ("NOTITLE", None), ("RFORMAT", "'(1PE16.9)'")],
    "DATA": [("IGNORE", "@"), ("WIDE", None), ("NULL", "0")],
    "ESTIMATION": [("MSFO", "msf1"), ("NOABORT", None), ("PRINT", "5"), ("SEED", "1234")],
    "MODEL": [("COMPARTMENT", "(PERI2)"), ("NPARAMETERS", "3")],
    "SIZES": [("LTV", "70"), ("PDT", "-60"), ("MAXFCN", "1000")],
    "COVARIANCE": [("UNCONDITIONAL", None), ("PRINT", "E"), ("TOL", "9")],
    "ETAS": [("MAXETAS", "3")],
}

_OPT_BODIES = {
    "INPUT": (["$INPUT", "$INP", "$input", "$INPT"], COLS),
    "SUBROUTINES": (["$SUBROUTINES", "$SUBS", "$SUB", "$subr"], ["ADVAN1", "TRANS2", "ADVAN=ADVAN3", "TRANS=TRANS4", "OTHER=x.f90"]),
    "TABLE": (["$TABLE", "$TAB"], COLS[:6] + ["PRED", "NOPRINT", "ONEHEADER", "NOAPPEND", "FILE=sdtab1", "FORMAT=s1PE12.5", "FIRSTONLY"]),
    "DATA": (["$DATA", "$DAT", "$INFILE"], ["NOWIDE", "CHECKOUT", "RECORDS=10", "REWIND", "LRECL=80", "ACCEPT=(DV.NE.0)"]),
    "ESTIMATION": (["$ESTIMATION", "$EST", "$ESTIM", "$estimation"], ["METHOD=1", "METH=COND", "INTER", "MAXEVAL=9999", "POSTHOC", "SIGDIGITS=3", "LAPLACE",
                                                                      "FILE=psn.ext", "NITER=10"]),
    "MODEL": (["$MODEL", "$MOD"], ["COMP=(CENTRAL DEFDOSE)", "COMP=(DEPOT)", "NCOMP=2"]),
    "SIZES": (["$SIZES", "$SIZ"], ["LTH=50", "PD=-30", "LVR=35", "PC=40", "LIM1=2000"]),
    "COVARIANCE": (["$COVARIANCE", "$COV", "$COVR"], ["MATRIX=S", "PRECOND=1", "OMITTED"]),
    "ETAS": (["$ETAS"], ["FILE=run1_input.phi"]),
}

_OPT_NEIGHBOURS_BEFORE = ["$PROBLEM trailing comments\n", ";; head\n$PROBLEM p ; title; part\n", "$PROB x\n$ABBR DERIV2=NO ; keep\n"]
_OPT_NEIGHBOURS_AFTER = ["$PK\nCL = THETA(1)*EXP(ETA(1)) ; clearance\nV = THETA(2)\n", "$THETA (0, 0.005) ; TVCL\n$OMEGA 0.03 ; iiv\n",
                         "$PRED\n\"FIRST\nY = THETA(1) + ETA(1) + EPS(1) ;pred\n", "  $WARNINGS NONE ;w\n", "$SIGMA 0.01"]


def _eol_comment(rng):
    return ";" + rng.choice(["", " dose", " observations", " one compartment", "; double", " $TABLE in comment", " x=1", "\t tab", " foce-i &", " é"])


def gen_optedit(rng):
    """A control stream with one option record built line by line, whose END is drawn from a list of layout classes
    (option last / end-of-line comment + newline / comment without final newline / comment lines and blank lines after
    the last option / trailing blanks / CR LF / continuation), plus the index of the option to append."""
    kind = rng.choice(sorted(_OPT_BODIES))
    raws, pool = _OPT_BODIES[kind]
    nl = "\r\n" if rng.random() < 0.12 else "\n"
    s = rng.choice(raws)
    if kind == "DATA":
        s += _ws(rng).replace("\x00", " ") + rng.choice(["pheno.dta", "'my data.csv'", "../d/x.csv", "DUMMYPATH"])
    opts = rng.sample(pool, rng.randint(0 if kind == "DATA" else 1, min(len(pool), 6)))
    nlines = rng.randint(1, 3)
    per = [[] for _ in range(nlines)]
    for o in opts:
        per[rng.randrange(nlines)].append(o)
    ending = rng.choice(["option", "comment-nl", "comment-nl", "comment-nl", "comment-eof", "comment-then-lines", "trailing-ws", "option-eof",
                         "blank-lines", "comment-nl-ws-eof"])
    for li, line in enumerate(per):
        last = li == nlines - 1
        for o in line:
            s += rng.choice([" ", " ", "  ", "\t"]) + o
        if not last:
            if rng.random() < 0.4:
                s += rng.choice([" ", "  ", ""]) + _eol_comment(rng)
            s += nl + rng.choice(["", " ", "       ", "\t"])
    tail_is_last = False
    if ending == "option":
        s += nl
    elif ending == "comment-nl":
        s += rng.choice([" ", "  ", "", "        "]) + _eol_comment(rng) + nl
    elif ending == "comment-eof":
        s += rng.choice([" ", ""]) + _eol_comment(rng)
        tail_is_last = True
    elif ending == "comment-then-lines":
        s += " " + _eol_comment(rng) + nl
        for _ in range(rng.randint(1, 3)):
            s += rng.choice(["", "  "]) + rng.choice([_eol_comment(rng), "", _eol_comment(rng)]) + nl
    elif ending == "trailing-ws":
        s += rng.choice([" ", "  ", "\t"])
        if rng.random() < 0.5:
            s += nl
        else:
            tail_is_last = True
    elif ending == "option-eof":
        tail_is_last = True
    elif ending == "blank-lines":
        s += nl + rng.choice(["", " "]) + nl
    else:   # comment, newline, then blanks up to the end of the file
        s += " " + _eol_comment(rng) + nl + rng.choice([" ", "   "])
        tail_is_last = True
    before = rng.choice(_OPT_NEIGHBOURS_BEFORE)
    if kind == "SIZES" and rng.random() < 0.5:
        text = (s if not tail_is_last else s + "\n") + before
        tail_is_last = False
        after = rng.choice(_OPT_NEIGHBOURS_AFTER)
        text += after
    else:
        text = before + s + ("" if tail_is_last else rng.choice(_OPT_NEIGHBOURS_AFTER))
    return text, kind, ending
