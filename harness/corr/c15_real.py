"""C15, clause "a held lock is never released by unrelated activity such as another thread finishing with the same
file" for the CALLERS of path_lock (LocalModelDirectoryDatabase._read_lock/_write_lock,
LocalDirectoryContext._read_lock/_write_lock): their lock-file preparation runs in the calling thread every time a lock
is requested, and under POSIX record locks any open+close of the lock file by the process drops every lock the process
holds on it (the single-descriptor rule that lock.py's fd pool exists for).

This is decided on the real code with the real kernel (no model): thread A holds the lock through the caller, thread B
of the same process performs an activity on the same lock file, then ANOTHER PROCESS makes a conflicting non-blocking
lockf request, which must be refused while A still holds.  Every step is sequenced with events, so the outcome does not
depend on timing.  Case kind `real` of harness/corr/c15.py.
"""
import os
import subprocess
import sys
import threading

CHILD = r"""
import fcntl, os, sys
fd = os.open(sys.argv[1], os.O_RDWR)
op = fcntl.LOCK_EX if sys.argv[2] == 'ex' else fcntl.LOCK_SH
try:
    fcntl.lockf(fd, op | fcntl.LOCK_NB)
    print('granted')
except OSError:
    print('refused')
"""

ACTIVITIES = ["none", "factory-read", "factory-write", "enter-exit-shared", "factory-read-twice", "store-name-listing",
              "path-lock-dot-spelling", "path-lock-slash-spelling", "path-lock-dotdot-spelling"]


def corpus_real():
    out = []
    for target in ("db", "ctx"):
        for shared in (True, False):
            for act in ACTIVITIES:
                if (act == "enter-exit-shared" or act.startswith("path-lock-")) and not shared:
                    continue  # would have to wait for A
                out.append({"kind": "real", "target": target, "holder_shared": shared, "activity": act, "seed": 0})
    return out


def gen_real(rng):
    c = rng.choice(corpus_real())
    c = dict(c)
    c["seed"] = rng.randrange(1 << 30)
    return c


def _probe(path, mode):
    r = subprocess.run([sys.executable, "-c", CHILD, str(path), mode], capture_output=True, text=True, timeout=60)
    return r.stdout.strip() or ("error: " + r.stderr.strip()[-200:])


def run_real(case, drv):
    from harness.common.paths import scratch_root
    import shutil
    import tempfile
    mon, tags = [], ["real:" + case["target"], "real-activity:" + case["activity"]]
    root = tempfile.mkdtemp(prefix="c15real-", dir=str(scratch_root()))
    try:
        if case["target"] == "db":
            from pharmpy.workflows.model_database.local_directory import FILE_LOCK, LocalModelDirectoryDatabase
            obj = LocalModelDirectoryDatabase(os.path.join(root, "db"))
            rl, wl = obj._read_lock, obj._write_lock
            lockfile = obj.path / FILE_LOCK
        else:
            from pharmpy.workflows.contexts.local_directory import LocalDirectoryContext
            obj = LocalDirectoryContext("ctx", ref=root)
            target = obj.path / "annotations"
            rl, wl = (lambda: obj._read_lock(target)), (lambda: obj._write_lock(target))
            lockfile = target.with_suffix(".lock")
        shared = case["holder_shared"]
        holding, release, done = threading.Event(), threading.Event(), threading.Event()
        errs = []

        def thread_a():
            try:
                with (rl() if shared else wl()):
                    holding.set()
                    release.wait(60)
            except Exception as e:  # pragma: no cover
                errs.append(f"A: {type(e).__name__}: {e}")
                holding.set()
            finally:
                done.set()

        def thread_b():
            try:
                act = case["activity"]
                if act == "factory-read":
                    rl()
                elif act == "factory-write":
                    wl()
                elif act == "factory-read-twice":
                    rl()
                    rl()
                elif act == "enter-exit-shared":
                    with rl():
                        pass
                elif act == "store-name-listing" and case["target"] == "ctx":
                    obj.list_all_names()
                elif act.startswith("path-lock-"):
                    # the same lock file, locked (shared) and left again under another spelling of its path
                    from pharmpy.internals.fs.lock import path_lock
                    d, f = os.path.split(str(lockfile))
                    other = {"path-lock-dot-spelling": d + "/./" + f, "path-lock-slash-spelling": d + "//" + f,
                             "path-lock-dotdot-spelling": d + "/" + os.path.basename(d) + "/../" + f}[act]
                    if act == "path-lock-dotdot-spelling":
                        os.makedirs(os.path.join(d, os.path.basename(d)), exist_ok=True)
                    with path_lock(other, shared=True):
                        pass
            except Exception as e:
                errs.append(f"B: {type(e).__name__}: {e}")

        ta = threading.Thread(target=thread_a)
        ta.start()
        holding.wait(60)
        conflicting = "ex" if shared else "sh"
        before = _probe(lockfile, conflicting)
        tb = threading.Thread(target=thread_b)
        tb.start()
        tb.join(60)
        after = _probe(lockfile, conflicting)
        release.set()
        done.wait(60)
        ta.join(60)
        freed = _probe(lockfile, "ex")
        if errs:
            tags.append("real-activity-raised")
        if before != "refused":
            mon.append({"cls": "process-exclusion-real", "what": f"{case['target']}: thread A holds the lock "
                        f"{'shared' if shared else 'exclusively'} yet another process was {before} a conflicting request"})
        elif after != "refused":
            mon.append({"cls": "held-lock-dropped-by-same-process-activity",
                        "what": f"{case['target']}: thread A holds the lock {'shared' if shared else 'exclusively'}; after thread B of the "
                                f"same process did `{case['activity']}` another process was {after} a conflicting "
                                f"{'exclusive' if shared else 'shared'} lock (errors: {errs})"})
        if freed != "granted":
            mon.append({"cls": "kernel-lock-leaked-real", "what": f"{case['target']}: after every thread left, another process is {freed} the lock"})
    finally:
        shutil.rmtree(root, ignore_errors=True)
    return {"k": [], "mon": mon, "tags": tags, "nontrivial": True}
