#!/bin/sh
# tools/merge_builder6.sh cXX : merge branch build6-cXX into main, regenerate the manifest, run the quick check once (no evidence)
p=$1; P=$(echo $p | tr a-z A-Z)
cd /verif || exit 2
[ -z "$(git status --short | grep -v '^??')" ] || { echo "COMMIT LOCAL CHANGES FIRST"; exit 3; }
git merge --no-edit -X theirs build6-$p 2>&1 | tail -2 || { echo MERGE-FAILED; exit 3; }
python3 tools/mkmanifest.py | tail -1
VERIF_NO_EVIDENCE=1 timeout 1500 ./check $P --tier quick --seed 1 2>&1 | grep -E "audit|VIOLATION|done rc|INFRA|TIMEOUT|disagreements" | cut -c1-300
git add -A; git commit -q -m "merge build6-$p; manifest" ; echo merged $p
