#!/bin/sh
# tools/try_seed.sh CXX <dir with patch.diff demo.py meta.json> [--inplace]
# Apply the seeded change to a scratch worktree of /repo (default; /repo itself stays untouched so that other runs are not
# disturbed) or, with --inplace, to /repo itself exactly as the acceptance protocol does (git -C /repo apply; undo with checkout),
# then run the demo and the quick check.
P=$1; D=$(cd "$2" && pwd); MODE=$3
cd /verif || exit 2
if [ "$MODE" = "--inplace" ]; then
  [ -z "$(git -C /repo status --short)" ] || { echo "/repo not clean"; exit 2; }
  R=/repo
  echo "--- demo on unchanged tree"; PYTHONPATH=/repo/src timeout 300 /venv/bin/python $D/demo.py 2>&1 | tail -1
  git -C /repo apply $D/patch.diff || { echo "PATCH DOES NOT APPLY"; exit 3; }
else
  R=/dev/shm/seedtry-$$
  git -C /repo worktree add --detach $R HEAD -q || exit 2
  echo "--- demo on unchanged tree"; PYTHONPATH=/repo/src timeout 300 /venv/bin/python $D/demo.py 2>&1 | tail -1
  git -C $R apply $D/patch.diff || { echo "PATCH DOES NOT APPLY"; git -C /repo worktree remove --force $R; exit 3; }
fi
echo "--- demo on changed tree"; PYTHONPATH=$R/src timeout 300 /venv/bin/python $D/demo.py 2>&1 | tail -2
echo "--- check"; PHARMPY_REPO=$R VERIF_NO_EVIDENCE=1 timeout 1500 ./check $P --tier quick 2>&1 | grep -E "VIOLATION|monitor failures|done rc|INFRA|TIMEOUT" | cut -c1-500
if [ "$MODE" = "--inplace" ]; then git -C /repo checkout -- . ; git -C /repo status --short | head -3
else git -C /repo worktree remove --force $R; fi
