#!/bin/sh
# tools/try_seed.sh CXX <dir with patch.diff demo.py meta.json> [name]: apply the seeded change to /repo, run demo + quick check, undo
P=$1; D=$2; N=${3:-$P}
cd /verif || exit 2
[ -z "$(git -C /repo status --short)" ] || { echo "/repo not clean"; exit 2; }
echo "--- demo on unchanged tree"; PYTHONPATH=/repo/src timeout 300 /venv/bin/python $D/demo.py 2>&1 | tail -1
git -C /repo apply $D/patch.diff || { echo "PATCH DOES NOT APPLY"; exit 3; }
echo "--- demo on changed tree"; PYTHONPATH=/repo/src timeout 300 /venv/bin/python $D/demo.py 2>&1 | tail -2
echo "--- check"; timeout 1500 ./check $P --tier quick 2>&1 | grep -E "VIOLATION|monitor failures|done rc|INFRA|TIMEOUT" | cut -c1-500
git -C /repo checkout -- . ; git -C /repo status --short | head -3
