#!/bin/sh
# tools/proc_seed.sh CXX <suffix> <outdir>: confirm an independently seeded change and try the quick check on it.
# (1) demo PASS on /repo HEAD, FAIL on the changed tree; (2) the pinned 247 tests still pass on the changed tree;
# (3) ./check CXX --tier quick against the changed tree (scratch worktree of /repo HEAD; /repo itself untouched).
P=$1; SUF=$2; OUT=$3
D=/verif/seeded/$P$SUF
mkdir -p $D && cp $OUT/patch.diff $OUT/demo.py $OUT/meta.json $D/ || exit 2
R=/dev/shm/seedtry-$P$SUF-$$
B=/dev/shm/seedbase-$P$SUF-$$
git -C /repo worktree add --detach $R HEAD -q || exit 2
echo "--- demo on unchanged tree (HEAD)"; PYTHONPATH=$R/src timeout 600 /venv/bin/python $D/demo.py 2>&1 | tail -1; 
git -C $R apply $D/patch.diff || { echo "PATCH DOES NOT APPLY"; git -C /repo worktree remove --force $R; exit 3; }
echo "--- demo on changed tree"; PYTHONPATH=$R/src timeout 600 /venv/bin/python $D/demo.py 2>&1 | tail -2
echo "--- pinned tests on changed tree"; timeout 1500 python3 /verif/tools/pinned_tests.py $R 2>&1 | head -5
echo "--- check"; cd /verif; PHARMPY_REPO=$R VERIF_NO_EVIDENCE=1 timeout 1500 ./check $P --tier quick 2>&1 | grep -E "VIOLATION|KNOWN|monitor failures|done rc|INFRA|TIMEOUT|exit" | cut -c1-400 | head -30
echo "--- rc of check pipeline done"
git -C /repo worktree remove --force $R
