#!/bin/sh
# tools/sweep.sh [seeds...]: run every quick check for each given seed (default 0 1 2 3) on /repo; one line per run.
cd "$(dirname "$0")/.." || exit 2
SEEDS="${*:-0 1 2 3}"
for s in $SEEDS; do
  for i in 01 02 03 04 05 06 07 08 09 10 11 12 13 14 15 16 17 18 19 20; do
    out=$(timeout 1800 ./check C$i --tier quick --seed $s 2>&1); rc=$?
    v=$(echo "$out" | grep -c '^VIOLATION')
    w=$(echo "$out" | grep -o 'wall=[0-9.]*s' | tail -1)
    echo "seed=$s C$i rc=$rc violations=$v $w"
    [ $rc -ne 0 ] && echo "$out" | grep -E '^VIOLATION|INFRA|TIMEOUT|failing input|disagree' | cut -c1-600
  done
done
