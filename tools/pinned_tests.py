#!/usr/bin/env python3
"""tools/pinned_tests.py [repo]: run the pinned test command of /root/.vp/BASELINE.json on the given tree (default /repo)
and report which of the pinned (stable_pass) tests do not pass."""
import json, subprocess, sys, tempfile, os, xml.etree.ElementTree as ET
repo = sys.argv[1] if len(sys.argv) > 1 else "/repo"
base = json.load(open("/root/.vp/BASELINE.json"))
pinned = set(base["stable_pass"])
files = sorted({t.split("::")[0].replace(".", "/") + ".py" for t in pinned})
out = tempfile.mktemp(suffix=".xml", dir="/dev/shm")
cmd = ["/venv/bin/python", "-m", "pytest", "-q", "-p", "no:cacheprovider", "--timeout=900", "--continue-on-collection-errors",
       f"--junitxml={out}"] + files
env = dict(os.environ, PYTHONPATH=f"{repo}/src")
subprocess.run(cmd, cwd=repo, env=env, stdout=subprocess.DEVNULL, stderr=subprocess.DEVNULL)
ok = set()
for tc in ET.parse(out).getroot().iter("testcase"):
    if not any(ch.tag in ("failure", "error", "skipped") for ch in tc):
        ok.add(f"{tc.get('classname')}::{tc.get('name')}")
os.unlink(out)
missing = sorted(pinned - ok)
print(f"pinned {len(pinned)}; passing {len(pinned & ok)}; not passing {len(missing)}")
for m in missing[:20]:
    print("  NOT PASSING:", m)
sys.exit(1 if missing else 0)
