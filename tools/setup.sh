#!/bin/sh
# Build the Lean libraries and every driver that exists. Offline; files on disk only.
cd "$(dirname "$0")/../lean" || exit 2
lake build PharmpyModel PharmpyProofs || exit 1
for f in Drivers/C*.lean; do
  [ -f "$f" ] || continue
  n=$(basename "$f" .lean | tr 'A-Z' 'a-z')
  lake build "drv_$n" || exit 1
done
