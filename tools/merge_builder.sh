#!/bin/sh
# tools/merge_builder.sh cXX : merge branch build-cXX into main, build its Lean targets, run its quick check
p=$1; P=$(echo $p | tr a-z A-Z)
cd /verif || exit 2
git merge --no-edit -X theirs build-$p 2>&1 | tail -3 || { echo MERGE-FAILED; exit 3; }
python3 tools/mkmanifest.py
(cd lean && timeout 2400 lake build PharmpyProofs.$P.Properties drv_$p 2>&1 | grep -E "error|warning: .*sorry|Build completed" | head -10)
timeout 1500 ./check $P --tier quick 2>&1 | tail -6 | cut -c1-400
echo "rc=$?"
/opt/veriftools/pyvenv/bin/python - <<PY
import json, jsonschema
jsonschema.validate(json.load(open('/verif/MANIFEST.json')), json.load(open('/root/.vp/MANIFEST.schema.json')))
jsonschema.validate(json.load(open('/verif/evidence/$P.json')), json.load(open('/root/.vp/EVIDENCE.schema.json')))
print("manifest+evidence valid")
PY
