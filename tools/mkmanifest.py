#!/usr/bin/env python3
"""Assemble MANIFEST.json from harness/props/cXX.json fragments (one per claimed property)."""
import json
from pathlib import Path

V = Path(__file__).resolve().parents[1]
props = [json.loads(l) for l in (V / "properties.jsonl").read_text().splitlines() if l.strip()]
checks, na, engines = [], [], []
for p in props:
    pid = p["id"]
    f = V / "harness" / "props" / f"{pid.lower()}.json"
    if f.exists():
        frag = json.loads(f.read_text())
        checks.append({
            "property_id": pid,
            "quick_cmd": f"./check {pid} --tier quick",
            "thorough_cmd": f"./check {pid} --tier thorough",
            "evidence_file": f"evidence/{pid}.json",
            "replay_cmd_template": f"./check {pid} --replay {{path}}",
            "engine": "lean4-proof+correspondence",
            "level_claimed": {"category": "proof", "text": frag["level_text"], "design_ref": frag.get("design_ref", f"DESIGN.md section 6 {pid}")},
            "level_note": frag["level_note"],
            "technique": frag["technique"],
        })
    else:
        na.append({"property_id": pid, "reason": "no check registered yet: the Lean model/theorems and the correspondence harness for this property "
                   "are not built at this commit (planned in DESIGN.md section 6); not claimed rather than decided by another technique"})
man = {
    "version": 1,
    "setup_cmd": "cd lean && lake build",
    "hooks": {
        "guard": "PHARMPY_VERIF",
        "enable": "no source hooks are needed: checks run /repo/src in-process (PYTHONPATH=/repo/src) and instrument from outside; ./check exports PHARMPY_VERIF=1 for future hooks",
        "baseline_off_cmd": "cd /repo && /venv/bin/python -m pytest -ra -q -p no:cacheprovider --timeout=900 --continue-on-collection-errors",
        "source_commits": [],
        "add_only": True,
    },
    "engines": [{
        "name": "lean4-proof+correspondence", "path": "lean/ harness/",
        "serves_properties": [c["property_id"] for c in checks],
        "kind_free_text": "Lean 4 theorems over executable models (lean/PharmpyModel, lean/PharmpyProofs), tied to /repo on every run by "
                          "Python-AST translators that regenerate lean/PharmpyModel/Generated and by a differential correspondence harness "
                          "(harness/corr) driving compiled Lean drivers over a line protocol; property monitors on the real code search for failing inputs",
    }],
    "checks": checks,
    "not_applicable": na,
    "notes": "Known findings and fixed defects: known_findings.json. Trusted base: DESIGN.md section 7. Exit codes: 0 held, 1 VIOLATION, 2 infrastructure/timeout.",
}
(V / "MANIFEST.json").write_text(json.dumps(man, indent=1) + "\n")
print(f"{len(checks)} checks, {len(na)} not claimed")
