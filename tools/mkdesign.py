#!/usr/bin/env python3
"""Rewrite the generated block of DESIGN.md (between the BEGIN/END GENERATED markers) from harness/props/*.json,
evidence/*.json, seeded/*/meta.json and /repo's git log (via tools/mkstatus.py)."""
import json, subprocess, re
from pathlib import Path
V = Path(__file__).resolve().parents[1]
subprocess.run(["python3", str(V/"tools/mkstatus.py")], check=True, stdout=subprocess.DEVNULL)
status = (V/"notes/STATUS.md").read_text()
status = re.sub(r"^# STATUS.*\n", "", status)
status = re.sub(r"^### ", "##### ", status, flags=re.M)
status = re.sub(r"^## ", "#### ", status, flags=re.M)
out = ["<!-- BEGIN GENERATED (tools/mkdesign.py) -->", ""]
out.append("#### Technique and claimed level per property (from harness/props/cXX.json, also in MANIFEST.json)\n")
for i in range(1, 21):
    p = f"C{i:02d}"
    d = json.loads((V/f"harness/props/{p.lower()}.json").read_text())
    out.append(f"**{p}** — *technique:* {d.get('technique','')}\n")
    out.append(f"*claimed:* {d.get('level_text','')}\n")
    if d.get("level_note"):
        out.append(f"*not covered / note:* {d['level_note']}\n")
out.append(status)
out.append("<!-- END GENERATED -->")
block = "\n".join(out)
f = V/"DESIGN.md"
s = f.read_text()
if "<!-- BEGIN GENERATED" in s:
    s = re.sub(r"<!-- BEGIN GENERATED.*?<!-- END GENERATED -->", lambda m: block, s, flags=re.S)
else:
    s = s.rstrip("\n") + "\n\n" + block + "\n"
f.write_text(s)
print("DESIGN.md generated block rewritten")
