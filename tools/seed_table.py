#!/usr/bin/env python3
"""Markdown table of the seeded changes (seeded/*/meta.json)."""
import json
from pathlib import Path
V = Path(__file__).resolve().parents[1]
print("| seed | what the change does / what it needs | result of `./check` |")
print("|------|----------------------------------------|----------------------|")
for d in sorted((V/"seeded").iterdir()):
    m = json.loads((d/"meta.json").read_text())
    what = (m.get("summary") or "").replace("\n", " ").replace("|", "/")[:260]
    needs = (m.get("needs_to_manifest") or "")
    if isinstance(needs, list): needs = "; ".join(map(str, needs))
    needs = str(needs).replace("\n", " ").replace("|", "/")[:200]
    res = (m.get("confirmed_by_main_session", {}).get("check_result", "") + " — " + str(m.get("caught_by", ""))).replace("\n", " ").replace("|", "/")[:420]
    print(f"| {d.name} | {what} **Needs:** {needs} | {res} |")
