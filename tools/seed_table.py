#!/usr/bin/env python3
"""Markdown table of the seeded changes (seeded/*/meta.json)."""
import json
from pathlib import Path
V = Path(__file__).resolve().parents[1]
print("| seed | what the change does / what it needs | first result and what catches it | final sweep |")
print("|------|----------------------------------------|----------------------|------|")
for d in sorted((V/"seeded").iterdir()):
    m = json.loads((d/"meta.json").read_text())
    what = (m.get("summary") or "").replace("\n", " ").replace("|", "/")[:260]
    needs = (m.get("needs_to_manifest") or "")
    if isinstance(needs, list): needs = "; ".join(map(str, needs))
    needs = str(needs).replace("\n", " ").replace("|", "/")[:200]
    cbm = m.get("confirmed_by_main_session", {})
    first = cbm.get("check_result", "") if isinstance(cbm, dict) else ""
    res = ((first + " — ") if first else "") + ("first run: " + str(m["first_result"]) + ". " if m.get("first_result") else "") + str(m.get("caught_by", ""))
    res = res.replace("\n", " ").replace("|", "/")[:420]
    fin = "reported, failing input" if "with a failing input" in str(m.get("final_result", "")) else str(m.get("final_result", "-"))[:60]
    print(f"| {d.name} | {what} **Needs:** {needs} | {res} | {fin} |")
