#!/usr/bin/env python3
"""Print the per-property status table (markdown) from evidence/, harness/props/ and seeded/."""
import json, os
from pathlib import Path
V = Path(__file__).resolve().parents[1]
props = [json.loads(l) for l in (V/"properties.jsonl").read_text().splitlines() if l.strip()]
print("| id | theorems audited | quick cases (distinct non-trivial) | K disagreements | known classes | fixed classes | seeded changes |")
print("|----|------------------|------------------------------------|-----------------|---------------|---------------|----------------|")
for p in props:
    pid = p["id"]
    ev = V/"evidence"/f"{pid}.json"
    f = V/"harness"/"props"/f"{pid.lower()}.findings.json"
    known = fixed = 0
    if f.exists():
        fs = json.loads(f.read_text())
        known = sum(1 for x in fs if x.get("kind") == "known")
        fixed = sum(1 for x in fs if x.get("kind") == "fixed")
    seeds = sorted(d.name for d in (V/"seeded").glob(f"{pid}*") if d.is_dir())
    if ev.exists():
        e = json.loads(ev.read_text()); c = e["coverage"]
        print(f"| {pid} | {c.get('discharged')}/{c.get('obligations')} | {c.get('evaluations')} ({c.get('distinct_nontrivial')}) | {c.get('correspondence_disagreements')} | {known} | {fixed} | {', '.join(seeds) or '-'} |")
    else:
        print(f"| {pid} | - | - | - | {known} | {fixed} | {', '.join(seeds) or '-'} |")
